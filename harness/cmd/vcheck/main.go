// vcheck: runner for the runtime-monitoring checks of at-wat/mqtt-go.
package main

import (
	"encoding/json"
	"fmt"
	"io/ioutil"
	"os"
	"path/filepath"
	"strconv"

	_ "verif/checks"
	"verif/fw"
)

func root() string {
	if r := os.Getenv("VERIF_ROOT"); r != "" {
		return r
	}
	exe, _ := os.Executable()
	return filepath.Dir(filepath.Dir(exe))
}

func main() {
	if len(os.Args) < 2 {
		fmt.Println("usage: vcheck run <ID> <tier> | worker ... | replay <file> | list")
		os.Exit(3)
	}
	switch os.Args[1] {
	case "list":
		for _, id := range fw.IDs() {
			fmt.Println(id)
		}
	case "run":
		id := os.Args[2]
		tier := "quick"
		if len(os.Args) > 3 {
			tier = os.Args[3]
		}
		if t := os.Getenv("VERIF_TIER"); t != "" && len(os.Args) <= 3 {
			tier = t
		}
		seed := int64(0)
		if s := os.Getenv("VERIF_SEED"); s != "" {
			seed, _ = strconv.ParseInt(s, 10, 64)
		}
		p := fw.Lookup(id)
		if p == nil {
			fmt.Println("unknown property", id)
			os.Exit(3)
		}
		exe, _ := os.Executable()
		race := filepath.Join(filepath.Dir(exe), "vcheck_race")
		os.Exit(fw.Run(p, tier, seed, root(), exe, race))
	case "worker":
		// worker <ID> <tier> <seed> <shard> <of> <after> <out>
		p := fw.Lookup(os.Args[2])
		seed, _ := strconv.ParseInt(os.Args[4], 10, 64)
		shard, _ := strconv.Atoi(os.Args[5])
		of, _ := strconv.Atoi(os.Args[6])
		after, _ := strconv.Atoi(os.Args[7])
		env := &fw.Env{Tier: os.Args[3], Seed: seed, Race: raceEnabled}
		fw.Worker(p, env, shard, of, after, os.Args[8])
	case "replay":
		b, err := ioutil.ReadFile(os.Args[2])
		if err != nil {
			fmt.Println(err)
			os.Exit(3)
		}
		var rep struct {
			Property string  `json:"property"`
			Tier     string  `json:"tier"`
			Seed     int64   `json:"seed"`
			Case     fw.Case `json:"case"`
		}
		if err := json.Unmarshal(b, &rep); err != nil {
			fmt.Println(err)
			os.Exit(3)
		}
		p := fw.Lookup(rep.Property)
		if p == nil || rep.Case.Idx < 0 {
			fmt.Println("replay: not a replayable case (race reports are reproduced by re-running the check)")
			os.Exit(3)
		}
		env := &fw.Env{Tier: rep.Tier, Seed: rep.Seed, Race: raceEnabled, Replay: true}
		// goroutine timing is not controlled: a replay re-runs the case, up to 25 times, until it violates
		var r fw.Result
		attempts := 0
		for attempts < 25 {
			attempts++
			r = fw.RunOne(p, rep.Case, env)
			if r.Verdict == fw.Violated || len(r.More) > 0 {
				break
			}
		}
		fmt.Printf("replay attempts: %d\n", attempts)
		out, _ := json.MarshalIndent(r, "", " ")
		fmt.Println(string(out))
		if r.Verdict == fw.Violated || len(r.More) > 0 {
			fmt.Printf("VIOLATION property=%s replay=%s\n", rep.Property, os.Args[2])
			os.Exit(1)
		}
	default:
		fmt.Println("unknown command")
		os.Exit(3)
	}
}
