// Package mqttref is an independent MQTT 3.1.1 codec written from the OASIS
// text. It shares no code with the library under test and is used as oracle
// (strict decoder), as the broker-side framer and as encoder for peers.
package mqttref

import (
	"errors"
	"fmt"
	"unicode/utf8"
)

// Packet types.
const (
	CONNECT     = 1
	CONNACK     = 2
	PUBLISH     = 3
	PUBACK      = 4
	PUBREC      = 5
	PUBREL      = 6
	PUBCOMP     = 7
	SUBSCRIBE   = 8
	SUBACK      = 9
	UNSUBSCRIBE = 10
	UNSUBACK    = 11
	PINGREQ     = 12
	PINGRESP    = 13
	DISCONNECT  = 14
)

var names = [...]string{"RESERVED0", "CONNECT", "CONNACK", "PUBLISH", "PUBACK", "PUBREC", "PUBREL", "PUBCOMP",
	"SUBSCRIBE", "SUBACK", "UNSUBSCRIBE", "UNSUBACK", "PINGREQ", "PINGRESP", "DISCONNECT", "RESERVED15"}

// TypeName returns the name of a packet type.
func TypeName(t int) string {
	if t >= 0 && t < 16 {
		return names[t]
	}
	return fmt.Sprintf("T%d", t)
}

// MaxRemaining is the largest remaining length MQTT 3.1.1 can express.
const MaxRemaining = 268435455

// Sub is one entry of a SUBSCRIBE payload.
type Sub struct {
	Filter string
	QoS    byte
}

// Packet is a decoded control packet.
type Packet struct {
	Type  int
	Flags byte
	// PUBLISH
	Dup, Retain bool
	QoS         byte
	Topic       string
	Payload     []byte
	// id of PUBLISH(qos>0), PUBACK.., SUBSCRIBE, ...
	ID uint16
	// CONNECT
	ProtoName    string
	ProtoLevel   byte
	ConnFlags    byte
	KeepAlive    uint16
	ClientID     string
	WillTopic    string
	WillPayload  []byte
	HasWill      bool
	WillQoS      byte
	WillRetain   bool
	HasUser      bool
	HasPass      bool
	UserName     string
	Password     string
	CleanSession bool
	// CONNACK
	SessionPresent bool
	Code           byte
	// SUBSCRIBE / UNSUBSCRIBE / SUBACK
	Subs    []Sub
	Filters []string
	Codes   []byte
	// size of the whole packet on the wire and of the length field
	Size   int
	LenLen int
}

func (p *Packet) String() string {
	if p == nil {
		return "<nil>"
	}
	switch p.Type {
	case PUBLISH:
		pl := string(p.Payload)
		if len(pl) > 24 {
			pl = fmt.Sprintf("%s…(%d)", pl[:24], len(p.Payload))
		}
		return fmt.Sprintf("PUBLISH(id=%d q%d dup=%v ret=%v %q %q)", p.ID, p.QoS, p.Dup, p.Retain, p.Topic, pl)
	case PUBACK, PUBREC, PUBREL, PUBCOMP, UNSUBACK:
		return fmt.Sprintf("%s(id=%d)", TypeName(p.Type), p.ID)
	case SUBSCRIBE:
		return fmt.Sprintf("SUBSCRIBE(id=%d %v)", p.ID, p.Subs)
	case UNSUBSCRIBE:
		return fmt.Sprintf("UNSUBSCRIBE(id=%d %v)", p.ID, p.Filters)
	case SUBACK:
		return fmt.Sprintf("SUBACK(id=%d %v)", p.ID, p.Codes)
	case CONNECT:
		return fmt.Sprintf("CONNECT(%q clean=%v ka=%d)", p.ClientID, p.CleanSession, p.KeepAlive)
	case CONNACK:
		return fmt.Sprintf("CONNACK(sp=%v code=%d)", p.SessionPresent, p.Code)
	}
	return TypeName(p.Type)
}

// Error classes of the strict decoder. Need-more-bytes is ErrShort.
var (
	ErrShort = errors.New("mqttref: need more bytes")
)

// Malformed describes why a packet is not well-formed MQTT 3.1.1.
type Malformed struct {
	Class  string // "length-field", "flags", "qos3", "type", "short-body", "nul-in-topic", "utf8", "zero-id", "trailing", "connect", "other"
	Detail string
}

func (m *Malformed) Error() string { return "malformed[" + m.Class + "]: " + m.Detail }

func mal(class, f string, a ...interface{}) error {
	return &Malformed{Class: class, Detail: fmt.Sprintf(f, a...)}
}

// EncodeLen returns the minimal variable-length encoding of n (0..MaxRemaining).
func EncodeLen(n int) []byte {
	if n < 0 || n > MaxRemaining {
		panic("mqttref: length out of range")
	}
	var out []byte
	for {
		d := byte(n % 128)
		n /= 128
		if n > 0 {
			d |= 128
		}
		out = append(out, d)
		if n == 0 {
			return out
		}
	}
}

// DecodeLen decodes a variable-length field at the start of b. It returns the
// value and the number of bytes used. ErrShort if b ends inside the field;
// Malformed if the field is longer than four bytes. Non-minimal encodings are
// reported through minimal=false.
func DecodeLen(b []byte) (n, used int, minimal bool, err error) {
	mult := 1
	for i := 0; ; i++ {
		if i >= 4 {
			return 0, 0, false, mal("length-field", "more than four length bytes")
		}
		if i >= len(b) {
			return 0, 0, false, ErrShort
		}
		n += int(b[i]&0x7F) * mult
		mult *= 128
		if b[i]&0x80 == 0 {
			used = i + 1
			minimal = used == 1 || b[i] != 0
			return n, used, minimal, nil
		}
	}
}

// Frame splits the first complete packet off b. It returns the total size of
// that packet, or ErrShort, or a Malformed length-field error.
func Frame(b []byte) (size int, err error) {
	if len(b) < 2 {
		return 0, ErrShort
	}
	n, used, _, err := DecodeLen(b[1:])
	if err != nil {
		return 0, err
	}
	if len(b) < 1+used+n {
		return 0, ErrShort
	}
	return 1 + used + n, nil
}

type rd struct {
	b []byte
	o int
}

func (r *rd) left() int { return len(r.b) - r.o }
func (r *rd) u8() (byte, error) {
	if r.left() < 1 {
		return 0, mal("short-body", "byte missing")
	}
	v := r.b[r.o]
	r.o++
	return v, nil
}
func (r *rd) u16() (uint16, error) {
	if r.left() < 2 {
		return 0, mal("short-body", "two-byte integer missing")
	}
	v := uint16(r.b[r.o])<<8 | uint16(r.b[r.o+1])
	r.o += 2
	return v, nil
}
func (r *rd) bin() ([]byte, error) {
	n, err := r.u16()
	if err != nil {
		return nil, err
	}
	if r.left() < int(n) {
		return nil, mal("short-body", "length-prefixed field of %d bytes exceeds the body", n)
	}
	v := r.b[r.o : r.o+int(n)]
	r.o += int(n)
	return v, nil
}
func (r *rd) str(what string) (string, error) {
	v, err := r.bin()
	if err != nil {
		return "", err
	}
	if !utf8.Valid(v) {
		return "", mal("utf8", "%s is not valid UTF-8", what)
	}
	for _, c := range string(v) {
		if c == 0 {
			return "", mal("nul-in-topic", "%s contains U+0000", what)
		}
	}
	return string(v), nil
}

// Decode strictly decodes exactly one packet occupying the whole of b.
// fromClient selects which direction's rules apply to ids and flags (the same
// for all types, but kept for documentation).
func Decode(b []byte) (*Packet, error) {
	if len(b) < 2 {
		return nil, ErrShort
	}
	n, used, minimal, err := DecodeLen(b[1:])
	if err != nil {
		return nil, err
	}
	if len(b) < 1+used+n {
		return nil, ErrShort
	}
	if len(b) != 1+used+n {
		return nil, mal("trailing", "%d bytes after the packet", len(b)-(1+used+n))
	}
	p := &Packet{Type: int(b[0] >> 4), Flags: b[0] & 0x0F, Size: len(b), LenLen: used}
	if !minimal {
		return p, mal("nonminimal-length", "non-minimal remaining length encoding")
	}
	r := &rd{b: b[1+used:]}
	wantFlags := func(f byte) error {
		if p.Flags != f {
			return mal("flags", "%s with flags %x (must be %x)", TypeName(p.Type), p.Flags, f)
		}
		return nil
	}
	done := func() (*Packet, error) {
		if r.left() != 0 {
			return p, mal("trailing", "%s body has %d extra bytes", TypeName(p.Type), r.left())
		}
		return p, nil
	}
	switch p.Type {
	case CONNECT:
		if err := wantFlags(0); err != nil {
			return p, err
		}
		if p.ProtoName, err = r.str("protocol name"); err != nil {
			return p, err
		}
		if p.ProtoLevel, err = r.u8(); err != nil {
			return p, err
		}
		if p.ConnFlags, err = r.u8(); err != nil {
			return p, err
		}
		if p.KeepAlive, err = r.u16(); err != nil {
			return p, err
		}
		f := p.ConnFlags
		if f&1 != 0 {
			return p, mal("connect", "reserved connect flag set")
		}
		p.CleanSession = f&2 != 0
		p.HasWill = f&4 != 0
		p.WillQoS = (f >> 3) & 3
		p.WillRetain = f&0x20 != 0
		p.HasPass = f&0x40 != 0
		p.HasUser = f&0x80 != 0
		if !p.HasWill && (p.WillQoS != 0 || p.WillRetain) {
			return p, mal("connect", "will qos/retain without will flag")
		}
		if p.WillQoS == 3 {
			return p, mal("connect", "will qos 3")
		}
		if p.HasPass && !p.HasUser {
			return p, mal("connect", "password without user name")
		}
		if p.ClientID, err = r.str("client id"); err != nil {
			return p, err
		}
		if p.HasWill {
			if p.WillTopic, err = r.str("will topic"); err != nil {
				return p, err
			}
			if p.WillPayload, err = r.bin(); err != nil {
				return p, err
			}
		}
		if p.HasUser {
			if p.UserName, err = r.str("user name"); err != nil {
				return p, err
			}
		}
		if p.HasPass {
			pw, err := r.bin()
			if err != nil {
				return p, err
			}
			p.Password = string(pw)
		}
		if (p.ProtoLevel == 4 && p.ProtoName != "MQTT") || (p.ProtoLevel == 3 && p.ProtoName != "MQIsdp" && p.ProtoName != "MQTT") {
			return p, mal("connect", "protocol name %q for level %d", p.ProtoName, p.ProtoLevel)
		}
		return done()
	case CONNACK:
		if err := wantFlags(0); err != nil {
			return p, err
		}
		a, err := r.u8()
		if err != nil {
			return p, err
		}
		if a&0xFE != 0 {
			return p, mal("other", "reserved CONNACK acknowledge flags")
		}
		p.SessionPresent = a&1 != 0
		if p.Code, err = r.u8(); err != nil {
			return p, err
		}
		return done()
	case PUBLISH:
		p.Dup = p.Flags&8 != 0
		p.QoS = (p.Flags >> 1) & 3
		p.Retain = p.Flags&1 != 0
		if p.QoS == 3 {
			return p, mal("qos3", "PUBLISH with QoS 3")
		}
		if p.Topic, err = r.str("topic"); err != nil {
			return p, err
		}
		if p.QoS > 0 {
			if p.ID, err = r.u16(); err != nil {
				return p, err
			}
		}
		p.Payload = append([]byte{}, r.b[r.o:]...)
		r.o = len(r.b)
		if p.QoS == 0 && p.Dup {
			return p, mal("other", "DUP on QoS 0")
		}
		if p.QoS > 0 && p.ID == 0 {
			return p, mal("zero-id", "PUBLISH QoS>0 with id 0")
		}
		if len(p.Topic) == 0 {
			return p, mal("other", "empty topic name")
		}
		for _, c := range p.Topic {
			if c == '+' || c == '#' {
				return p, mal("other", "wildcard in topic name")
			}
		}
		return p, nil
	case PUBACK, PUBREC, PUBCOMP, UNSUBACK, PUBREL:
		f := byte(0)
		if p.Type == PUBREL {
			f = 2
		}
		if err := wantFlags(f); err != nil {
			return p, err
		}
		if p.ID, err = r.u16(); err != nil {
			return p, err
		}
		if p.ID == 0 {
			return p, mal("zero-id", "%s with id 0", TypeName(p.Type))
		}
		return done()
	case SUBSCRIBE:
		if err := wantFlags(2); err != nil {
			return p, err
		}
		if p.ID, err = r.u16(); err != nil {
			return p, err
		}
		for r.left() > 0 {
			f, err := r.str("topic filter")
			if err != nil {
				return p, err
			}
			q, err := r.u8()
			if err != nil {
				return p, err
			}
			if q > 2 {
				return p, mal("other", "SUBSCRIBE requested QoS byte %x", q)
			}
			p.Subs = append(p.Subs, Sub{f, q})
		}
		if p.ID == 0 {
			return p, mal("zero-id", "SUBSCRIBE with id 0")
		}
		if len(p.Subs) == 0 {
			return p, mal("other", "SUBSCRIBE without filters")
		}
		return p, nil
	case UNSUBSCRIBE:
		if err := wantFlags(2); err != nil {
			return p, err
		}
		if p.ID, err = r.u16(); err != nil {
			return p, err
		}
		for r.left() > 0 {
			f, err := r.str("topic filter")
			if err != nil {
				return p, err
			}
			p.Filters = append(p.Filters, f)
		}
		if p.ID == 0 {
			return p, mal("zero-id", "UNSUBSCRIBE with id 0")
		}
		if len(p.Filters) == 0 {
			return p, mal("other", "UNSUBSCRIBE without filters")
		}
		return p, nil
	case SUBACK:
		if err := wantFlags(0); err != nil {
			return p, err
		}
		if p.ID, err = r.u16(); err != nil {
			return p, err
		}
		p.Codes = append([]byte{}, r.b[r.o:]...)
		r.o = len(r.b)
		return p, nil
	case PINGREQ, PINGRESP, DISCONNECT:
		if err := wantFlags(0); err != nil {
			return p, err
		}
		return done()
	}
	return p, mal("type", "reserved packet type %d", p.Type)
}

// ---- encoders (used by peers) ----

func hdr(t int, flags byte, body []byte) []byte {
	out := []byte{byte(t<<4) | flags}
	out = append(out, EncodeLen(len(body))...)
	return append(out, body...)
}

func u16(v uint16) []byte { return []byte{byte(v >> 8), byte(v)} }
func bstr(s []byte) []byte {
	return append(u16(uint16(len(s))), s...)
}

// EncConnAck encodes a CONNACK.
func EncConnAck(sp bool, code byte) []byte {
	a := byte(0)
	if sp {
		a = 1
	}
	return hdr(CONNACK, 0, []byte{a, code})
}

// EncAck encodes PUBACK/PUBREC/PUBREL/PUBCOMP/UNSUBACK.
func EncAck(t int, id uint16) []byte {
	f := byte(0)
	if t == PUBREL {
		f = 2
	}
	return hdr(t, f, u16(id))
}

// EncSubAck encodes a SUBACK.
func EncSubAck(id uint16, codes []byte) []byte {
	return hdr(SUBACK, 0, append(u16(id), codes...))
}

// EncPingResp encodes PINGRESP.
func EncPingResp() []byte { return hdr(PINGRESP, 0, nil) }

// EncPublish encodes a PUBLISH (id is written iff qos>0).
func EncPublish(topic string, payload []byte, qos byte, dup, retain bool, id uint16) []byte {
	f := qos << 1
	if dup {
		f |= 8
	}
	if retain {
		f |= 1
	}
	body := bstr([]byte(topic))
	if qos > 0 {
		body = append(body, u16(id)...)
	}
	body = append(body, payload...)
	return hdr(PUBLISH, f, body)
}

// EncRaw builds a packet with arbitrary first byte and body (minimal length field).
func EncRaw(first byte, body []byte) []byte {
	out := []byte{first}
	out = append(out, EncodeLen(len(body))...)
	return append(out, body...)
}

// Framer reassembles a byte stream into packets.
type Framer struct {
	buf []byte
}

// Feed appends bytes and returns the complete raw packets now available.
// A length-field error is returned as err (the stream cannot be resynchronised).
func (f *Framer) Feed(b []byte) (pkts [][]byte, err error) {
	f.buf = append(f.buf, b...)
	for {
		n, err := Frame(f.buf)
		if err == ErrShort {
			return pkts, nil
		}
		if err != nil {
			return pkts, err
		}
		pkts = append(pkts, append([]byte{}, f.buf[:n]...))
		f.buf = f.buf[n:]
	}
}

// Pending returns the number of buffered bytes not yet forming a packet.
func (f *Framer) Pending() int { return len(f.buf) }
