// Package fw is the small execution framework shared by all property checks:
// deterministic case lists, sharded worker processes with a journal (so that a
// panic in a library goroutine is attributed to the case that was running),
// three-valued verdicts, known-findings handling and evidence files.
package fw

import (
	"bufio"
	"bytes"
	"crypto/sha1"
	"encoding/hex"
	"encoding/json"
	"fmt"
	"io/ioutil"
	"math/rand"
	"os"
	"os/exec"
	"path/filepath"
	"regexp"
	"runtime"
	"sort"
	"strconv"
	"strings"
	"sync"
	"syscall"
	"time"
)

// Verdicts.
const (
	Held         = "held"
	Violated     = "violated"
	Inconclusive = "inconclusive"
)

// Case is one execution to perform. P must be a pure function of (tier, seed).
type Case struct {
	Idx  int             `json:"idx"`
	Name string          `json:"name"`
	P    json.RawMessage `json:"p,omitempty"`
}

// Result of one case.
type Result struct {
	Idx      int            `json:"idx"`
	Name     string         `json:"name"`
	Verdict  string         `json:"verdict"`
	Sig      string         `json:"sig,omitempty"`
	Detail   string         `json:"detail,omitempty"`
	NT       []string       `json:"nt,omitempty"`       // keys of distinct non-trivial observations
	Ms       int64          `json:"ms,omitempty"`       // wall time of the case
	Evals    int            `json:"evals,omitempty"`    // executions performed inside this case (default 1)
	NTCount  int            `json:"ntcount,omitempty"`  // further distinct non-trivial cases counted by the worker (disjoint across cases by construction)
	Counters map[string]int `json:"counters,omitempty"` // summed into the evidence
	Sample   interface{}    `json:"sample,omitempty"`   // written into evidence samples (first few)
	Trace    []string       `json:"trace,omitempty"`    // abbreviated trace for violations
	// ReplayCase, if set, replaces the case in the replay file (a single scenario instead of the whole batch).
	ReplayCase *Case `json:"replay_case,omitempty"`
	// Extra violations found in the same case (each with its own signature).
	More []Finding `json:"more,omitempty"`
}

// Finding is an additional violation inside one case.
type Finding struct {
	Sig    string `json:"sig"`
	Detail string `json:"detail"`
}

// Env is passed to Run.
type Env struct {
	Tier    string
	Seed    int64
	Race    bool
	Replay  bool
	WorkDir string
}

// Rng returns a PRNG determined by seed and case index.
func (e *Env) Rng(c Case) *rand.Rand {
	return rand.New(rand.NewSource(e.Seed*1000003 + int64(c.Idx)*7919 + 17))
}

// Prop describes one property check.
type Prop struct {
	ID          string
	Level       string
	Rule        string
	Assumptions []string
	Gen         func(tier string, seed int64) []Case
	Run         func(c Case, env *Env) Result
	// Race: run the workers from the -race binary and fold race reports in.
	Race bool
	// RaceFilter classifies a race report into a signature ("" = ignore).
	// Workers to use (0 = NumCPU).
	Workers int
	// Budget: wall-clock watchdog per worker process (not a verdict).
	Budget func(tier string) time.Duration
	// Finish may adjust / add information after aggregation (e.g. require that
	// specific counters are non-zero). It returns extra "observed nothing" reasons.
	Finish func(a *Agg) []string
	// Procs: GOMAXPROCS of each worker (0 = 4).
	Procs int
	// MinNT: minimum number of distinct non-trivial observations for a pass.
	MinNT int
}

var registry = map[string]*Prop{}

// Register adds a property check.
func Register(p *Prop) { registry[p.ID] = p }

// Lookup returns a registered property.
func Lookup(id string) *Prop { return registry[id] }

// IDs lists registered property ids.
func IDs() []string {
	var ids []string
	for id := range registry {
		ids = append(ids, id)
	}
	sort.Strings(ids)
	return ids
}

// Mk builds a case from any JSON-serialisable parameter value.
func Mk(name string, p interface{}) Case {
	b, err := json.Marshal(p)
	if err != nil {
		panic(err)
	}
	return Case{Name: name, P: b}
}

// Params decodes case parameters.
func Params(c Case, into interface{}) {
	if err := json.Unmarshal(c.P, into); err != nil {
		panic(fmt.Sprintf("case %s: %v", c.Name, err))
	}
}

// Hash returns a short stable hash of the arguments.
func Hash(parts ...interface{}) string {
	h := sha1.New()
	for _, p := range parts {
		fmt.Fprintf(h, "%v|", p)
	}
	return hex.EncodeToString(h.Sum(nil))[:12]
}

// ---------------------------------------------------------------------------
// known findings

// KnownFinding is one entry of /verif/known_findings.json.
type KnownFinding struct {
	Property    string `json:"property"`
	Status      string `json:"status"` // "known" | "fixed"
	Signature   string `json:"signature"`
	Description string `json:"description"`
	Commit      string `json:"commit,omitempty"`
}

// LoadKnown reads the committed known-findings file.
func LoadKnown(root string) []KnownFinding {
	var f struct {
		Findings []KnownFinding `json:"findings"`
	}
	b, err := ioutil.ReadFile(filepath.Join(root, "known_findings.json"))
	if err != nil {
		return nil
	}
	if err := json.Unmarshal(b, &f); err != nil {
		fmt.Fprintf(os.Stderr, "known_findings.json: %v\n", err)
		os.Exit(3)
	}
	return f.Findings
}

func matchKnown(known []KnownFinding, prop, sig string) *KnownFinding {
	for i := range known {
		k := &known[i]
		if k.Property != prop || k.Status != "known" {
			continue
		}
		if k.Signature == sig {
			return k
		}
		if strings.HasSuffix(k.Signature, "*") && strings.HasPrefix(sig, strings.TrimSuffix(k.Signature, "*")) {
			return k
		}
	}
	return nil
}

// ---------------------------------------------------------------------------
// worker side

type journalLine struct {
	Start *int    `json:"start,omitempty"`
	Name  string  `json:"name,omitempty"`
	Res   *Result `json:"res,omitempty"`
}

// Worker runs the shard of cases and journals to out.
func Worker(p *Prop, env *Env, shard, of, after int, out string) {
	cases := genCases(p, env.Tier, env.Seed)
	f, err := os.OpenFile(out, os.O_CREATE|os.O_WRONLY|os.O_APPEND, 0o644)
	if err != nil {
		fmt.Fprintln(os.Stderr, err)
		os.Exit(3)
	}
	w := bufio.NewWriter(f)
	enc := json.NewEncoder(w)
	for i := range cases {
		cases[i].Idx = i
		if i%of != shard || i <= after {
			continue
		}
		idx := i
		enc.Encode(journalLine{Start: &idx, Name: cases[i].Name})
		w.Flush()
		fmt.Fprintf(os.Stderr, "## case %d %s\n", i, cases[i].Name)
		r := RunOne(p, cases[i], env)
		enc.Encode(journalLine{Res: &r})
		w.Flush()
	}
	f.Close()
}

// RunOne runs a single case, converting panics on the calling goroutine into
// violations (panics on library goroutines kill the process; the parent
// attributes them through the journal).
func RunOne(p *Prop, c Case, env *Env) (r Result) {
	defer func() {
		if e := recover(); e != nil {
			buf := make([]byte, 1<<14)
			buf = buf[:runtime.Stack(buf, false)]
			r = Result{Idx: c.Idx, Name: c.Name, Verdict: Violated, Sig: "panic:" + panicSig(fmt.Sprint(e), string(buf)),
				Detail: fmt.Sprintf("panic: %v\n%s", e, buf)}
		}
	}()
	t0 := time.Now()
	r = p.Run(c, env)
	r.Ms = time.Since(t0).Milliseconds()
	if len(r.NT) > 50000 {
		// keep journal lines small; the surplus keys are counted (they are distinct within the case)
		r.NTCount += len(r.NT) - 50000
		r.NT = r.NT[:50000]
	}
	r.Idx = c.Idx
	r.Name = c.Name
	if r.Verdict == "" {
		r.Verdict = Held
	}
	return r
}

var reLibFrame = regexp.MustCompile(`github\.com/at-wat/mqtt-go\.([A-Za-z0-9_.()*]+)`)

func panicSig(msg, stack string) string {
	m := reLibFrame.FindStringSubmatch(stack)
	fn := "?"
	if m != nil {
		fn = m[1]
	}
	msg = regexp.MustCompile(`[0-9]+`).ReplaceAllString(msg, "N")
	if len(msg) > 60 {
		msg = msg[:60]
	}
	return fn + ":" + msg
}

// ---------------------------------------------------------------------------
// parent side

// Agg is the aggregate of a run.
type Agg struct {
	Prop         *Prop
	Tier         string
	Seed         int64
	Cases        int
	Results      []Result
	NT           map[string]bool
	NTCount      int
	Evals        int
	Counters     map[string]int
	Inconclusive int
	Violations   []Result
	Known        map[string]int
	Samples      []interface{}
	Wall         float64
	Extra        map[string]interface{}
}

// Distinct is the number of distinct non-trivial observations.
func (a *Agg) Distinct() int { return len(a.NT) + a.NTCount }

// Run executes the property check as a parent process. Returns the exit code.
func Run(p *Prop, tier string, seed int64, root, self, raceSelf string) int {
	t0 := time.Now()
	cases := genCases(p, tier, seed)
	for i := range cases {
		cases[i].Idx = i
	}
	nw := p.Workers
	if nw == 0 {
		nw = runtime.NumCPU()
	}
	if nw > len(cases) {
		nw = len(cases)
	}
	if nw < 1 {
		nw = 1
	}
	work := filepath.Join(root, "work", p.ID)
	os.RemoveAll(work)
	os.MkdirAll(work, 0o755)
	bin := self
	if p.Race {
		bin = raceSelf
	}
	budget := 20 * time.Minute
	if p.Budget != nil {
		budget = p.Budget(tier)
	}

	var mu sync.Mutex
	crashes := map[int]string{} // case idx -> stderr tail
	timedOut := map[int]bool{}
	var wg sync.WaitGroup
	for s := 0; s < nw; s++ {
		wg.Add(1)
		go func(s int) {
			defer wg.Done()
			out := filepath.Join(work, fmt.Sprintf("w%d.jsonl", s))
			after := -1
			for attempt := 0; attempt < 40; attempt++ {
				errPath := filepath.Join(work, fmt.Sprintf("w%d.%d.err", s, attempt))
				ef, _ := os.Create(errPath)
				cmd := exec.Command(bin, "worker", p.ID, tier, strconv.FormatInt(seed, 10), strconv.Itoa(s), strconv.Itoa(nw), strconv.Itoa(after), out)
				cmd.Stdout = ef
				cmd.Stderr = ef
				procs := p.Procs
				if procs == 0 {
					procs = 4
				}
				cmd.Env = append(os.Environ(), "GOTRACEBACK=all", "GOMAXPROCS="+strconv.Itoa(procs))
				if p.Race {
					cmd.Env = append(cmd.Env, "GORACE=halt_on_error=0 exitcode=0 history_size=3 log_path="+filepath.Join(work, fmt.Sprintf("race.w%d.%d", s, attempt)))
				}
				if err := cmd.Start(); err != nil {
					fmt.Fprintln(os.Stderr, "start worker:", err)
					ef.Close()
					return
				}
				done := make(chan error, 1)
				go func() { done <- cmd.Wait() }()
				var werr error
				killed := false
				select {
				case werr = <-done:
				case <-time.After(budget):
					killed = true
					cmd.Process.Signal(syscall.SIGQUIT)
					select {
					case werr = <-done:
					case <-time.After(20 * time.Second):
						cmd.Process.Kill()
						werr = <-done
					}
				}
				ef.Close()
				if werr == nil {
					return
				}
				// find the case in flight
				last := lastStarted(out)
				if last < 0 || last <= after {
					fmt.Fprintf(os.Stderr, "worker %d failed before starting a case: %v (see %s)\n", s, werr, errPath)
					mu.Lock()
					crashes[-1-s] = tail(errPath, 4000)
					mu.Unlock()
					return
				}
				mu.Lock()
				if killed {
					timedOut[last] = true
				} else {
					crashes[last] = tail(errPath, 6000)
				}
				mu.Unlock()
				after = last
			}
		}(s)
	}
	wg.Wait()

	// collect
	res := map[int]Result{}
	for s := 0; s < nw; s++ {
		f, err := os.Open(filepath.Join(work, fmt.Sprintf("w%d.jsonl", s)))
		if err != nil {
			continue
		}
		sc := bufio.NewScanner(f)
		sc.Buffer(make([]byte, 1<<20), 1<<26)
		for sc.Scan() {
			var jl journalLine
			if json.Unmarshal(sc.Bytes(), &jl) != nil {
				continue
			}
			if jl.Res != nil {
				res[jl.Res.Idx] = *jl.Res
			}
		}
		f.Close()
	}
	a := &Agg{Prop: p, Tier: tier, Seed: seed, Cases: len(cases), NT: map[string]bool{}, Counters: map[string]int{}, Known: map[string]int{}, Extra: map[string]interface{}{}}
	for i, c := range cases {
		r, ok := res[i]
		if !ok {
			if st, isCrash := crashes[i]; isCrash {
				r = Result{Idx: i, Name: c.Name, Verdict: Violated, Sig: "crash:" + crashSig(st), Detail: "worker process died while running this case:\n" + st}
			} else if timedOut[i] {
				r = Result{Idx: i, Name: c.Name, Verdict: Inconclusive, Detail: "worker watchdog fired during this case"}
			} else {
				r = Result{Idx: i, Name: c.Name, Verdict: Inconclusive, Detail: "case was not run (worker failed earlier)"}
			}
		}
		a.Results = append(a.Results, r)
	}
	for k, st := range crashes {
		if k < 0 {
			a.Results = append(a.Results, Result{Idx: -1, Name: "worker-startup", Verdict: Inconclusive, Detail: st})
		}
	}
	known := LoadKnown(root)
	replayDir := filepath.Join(root, "evidence", "replays")
	os.MkdirAll(replayDir, 0o755)
	old, _ := filepath.Glob(filepath.Join(replayDir, p.ID+"-*.json"))
	for _, o := range old {
		os.Remove(o)
	}
	exit := 0
	var lines []string
	nviol := 0
	seenSig := map[string]int{}
	report := func(c Case, r Result, sig, detail string) {
		if k := matchKnown(known, p.ID, sig); k != nil {
			a.Known[k.Signature]++
			return
		}
		nviol++
		seenSig[sig]++
		if seenSig[sig] > 3 {
			return
		}
		path := filepath.Join(replayDir, fmt.Sprintf("%s-%d.json", p.ID, nviol))
		if r.ReplayCase != nil {
			c = *r.ReplayCase
			c.Idx = 0
		}
		rep := map[string]interface{}{"property": p.ID, "tier": tier, "seed": seed, "case": c, "signature": sig, "detail": detail, "trace": r.Trace, "race": p.Race}
		b, _ := json.MarshalIndent(rep, "", " ")
		ioutil.WriteFile(path, b, 0o644)
		lines = append(lines, fmt.Sprintf("VIOLATION property=%s replay=%s", p.ID, path))
		fmt.Printf("  violation [%s] case %q: %s\n", sig, c.Name, firstLines(detail, 6))
		exit = 1
	}
	for _, r := range a.Results {
		for _, k := range r.NT {
			a.NT[k] = true
		}
		a.NTCount += r.NTCount
		if r.Evals > 0 {
			a.Evals += r.Evals
		} else {
			a.Evals++
		}
		for k, v := range r.Counters {
			a.Counters[k] += v
		}
		if r.Sample != nil && len(a.Samples) < 6 {
			a.Samples = append(a.Samples, r.Sample)
		}
		var c Case
		if r.Idx >= 0 && r.Idx < len(cases) {
			c = cases[r.Idx]
		}
		switch r.Verdict {
		case Violated:
			a.Violations = append(a.Violations, r)
			report(c, r, r.Sig, r.Detail)
		case Inconclusive:
			a.Inconclusive++
			if a.Inconclusive <= 5 {
				fmt.Printf("  inconclusive case %q: %s\n", r.Name, firstLines(r.Detail, 3))
			}
		}
		for _, m := range r.More {
			report(c, r, m.Sig, m.Detail)
		}
	}
	// race reports
	if p.Race {
		reports := ParseRaceLogs(work)
		a.Extra["race_reports_total"] = len(reports)
		bySig := map[string][]RaceReport{}
		for _, rr := range reports {
			bySig[rr.Sig] = append(bySig[rr.Sig], rr)
		}
		var sigs []string
		for s := range bySig {
			sigs = append(sigs, s)
		}
		sort.Strings(sigs)
		a.Extra["race_signatures"] = sigs
		for _, s := range sigs {
			rr := bySig[s][0]
			if strings.HasPrefix(s, "harness-race:") {
				// not the library's: shown so that it gets fixed, never a verdict on the property
				a.Counters["harness_race_reports"] += len(bySig[s])
				fmt.Printf("  note: data race inside the harness itself (no library frame involved), not a verdict: %s\n", s)
				continue
			}
			a.Counters["race_reports"] += len(bySig[s])
			report(Case{Idx: -1, Name: "race-detector"}, Result{Trace: strings.Split(rr.Text, "\n")}, s, rr.Text)
		}
	}
	slow := append([]Result{}, a.Results...)
	sort.Slice(slow, func(i, j int) bool { return slow[i].Ms > slow[j].Ms })
	for i := 0; i < 3 && i < len(slow) && slow[i].Ms > 5000; i++ {
		fmt.Printf("  slow case %q: %.1fs (%d executions)\n", slow[i].Name, float64(slow[i].Ms)/1000, slow[i].Evals)
	}
	var nothing []string
	if p.Finish != nil {
		nothing = p.Finish(a)
	}
	a.Wall = time.Since(t0).Seconds()
	for sig, n := range a.Known {
		for _, k := range known {
			if k.Property == p.ID && k.Signature == sig {
				fmt.Printf("KNOWN-FINDING: property=%s %s (%s; seen in %d cases)\n", p.ID, k.Description, sig, n)
			}
		}
	}
	min := p.MinNT
	if min < 2 {
		min = 2
	}
	if a.Distinct() < min {
		nothing = append(nothing, fmt.Sprintf("only %d distinct non-trivial observations (need >= %d)", a.Distinct(), min))
	}
	writeEvidence(root, a, nviol)
	for _, l := range lines {
		fmt.Println(l)
	}
	fmt.Printf("%s tier=%s seed=%d cases=%d nontrivial=%d inconclusive=%d violations=%d known=%d wall=%.1fs\n",
		p.ID, tier, seed, len(cases), a.Distinct(), a.Inconclusive, nviol, len(a.Known), a.Wall)
	if exit == 0 && len(nothing) > 0 {
		fmt.Printf("INCONCLUSIVE property=%s: %s\n", p.ID, strings.Join(nothing, "; "))
		return 2
	}
	if exit == 0 && a.Inconclusive*5 > len(cases) {
		fmt.Printf("INCONCLUSIVE property=%s: %d of %d cases inconclusive\n", p.ID, a.Inconclusive, len(cases))
		return 2
	}
	if exit == 0 {
		os.RemoveAll(work)
	}
	return exit
}

func firstLines(s string, n int) string {
	l := strings.Split(s, "\n")
	if len(l) > n {
		l = append(l[:n], "…")
	}
	return strings.Join(l, "\n      ")
}

func lastStarted(path string) int {
	f, err := os.Open(path)
	if err != nil {
		return -1
	}
	defer f.Close()
	last := -1
	done := map[int]bool{}
	sc := bufio.NewScanner(f)
	sc.Buffer(make([]byte, 1<<20), 1<<26)
	for sc.Scan() {
		var jl journalLine
		if json.Unmarshal(sc.Bytes(), &jl) != nil {
			continue
		}
		if jl.Start != nil {
			last = *jl.Start
		}
		if jl.Res != nil {
			done[jl.Res.Idx] = true
		}
	}
	if done[last] {
		// crashed between cases (e.g. leaked goroutine of an earlier case):
		// attribute to the last started case anyway.
		return last
	}
	return last
}

func tail(path string, n int) string {
	b, _ := ioutil.ReadFile(path)
	// prefer the part starting at the panic / fatal error
	for _, key := range []string{"panic: ", "fatal error: "} {
		if i := bytes.Index(b, []byte(key)); i >= 0 {
			b = b[i:]
			if len(b) > n {
				b = b[:n]
			}
			return string(b)
		}
	}
	if len(b) > n {
		b = b[len(b)-n:]
	}
	return string(b)
}

func crashSig(stderr string) string {
	first := ""
	for _, l := range strings.Split(stderr, "\n") {
		if strings.HasPrefix(l, "panic: ") || strings.HasPrefix(l, "fatal error: ") {
			first = l
			break
		}
	}
	return panicSig(first, stderr)
}

func writeEvidence(root string, a *Agg, nviol int) {
	p := a.Prop
	samples := a.Samples
	if len(samples) == 0 {
		for _, r := range a.Results {
			if len(samples) >= 3 {
				break
			}
			samples = append(samples, map[string]interface{}{"case": r.Name, "verdict": r.Verdict})
		}
	}
	// some checks count executions (scenarios, scripts), others only the observations they made inside one execution
	// (pairs, rounds): an observation is at least one evaluation of the oracle
	evals := a.Evals
	if d := a.Distinct(); evals < d {
		evals = d
	}
	cov := map[string]interface{}{
		"evaluations":         evals,
		"cases":               len(a.Results),
		"distinct_nontrivial": a.Distinct(),
		"rule":                p.Rule,
		"samples":             samples,
		"counters":            a.Counters,
		"inconclusive":        a.Inconclusive,
		"known_findings_seen": a.Known,
	}
	for k, v := range a.Extra {
		cov[k] = v
	}
	var overlaps []string
	for k := range a.NT {
		if strings.HasPrefix(k, "overlap:") {
			overlaps = append(overlaps, strings.TrimPrefix(k, "overlap:"))
		}
	}
	if len(overlaps) > 0 {
		sort.Strings(overlaps)
		cov["call_kinds_observed_executing_concurrently"] = overlaps
	}
	ev := map[string]interface{}{
		"property_id": p.ID,
		"tier":        a.Tier,
		"seed":        a.Seed,
		"level":       p.Level,
		"coverage":    cov,
		"assumptions": p.Assumptions,
		"wall_s":      a.Wall,
		"violations":  nviol,
	}
	b, _ := json.MarshalIndent(ev, "", " ")
	dir := filepath.Join(root, "evidence")
	if d := os.Getenv("VERIF_EVIDENCE_DIR"); d != "" {
		dir = d // scratch runs against modified trees must not overwrite the committed evidence
	}
	os.MkdirAll(dir, 0o755)
	ioutil.WriteFile(filepath.Join(dir, p.ID+".json"), b, 0o644)
}

// ---------------------------------------------------------------------------
// race log parsing

// RaceReport is one "WARNING: DATA RACE" block.
type RaceReport struct {
	Sig  string
	Text string
}

var reFrame = regexp.MustCompile(`^\s+([^\s(][^\n]*?)\(\)?\s*$`)

// ParseRaceLogs reads all race.* files in dir.
func ParseRaceLogs(dir string) []RaceReport {
	files, _ := filepath.Glob(filepath.Join(dir, "race.*"))
	var out []RaceReport
	for _, f := range files {
		b, err := ioutil.ReadFile(f)
		if err != nil {
			continue
		}
		blocks := strings.Split(string(b), "==================")
		for _, bl := range blocks {
			if !strings.Contains(bl, "WARNING: DATA RACE") {
				continue
			}
			out = append(out, RaceReport{Sig: raceSig(bl), Text: strings.TrimSpace(bl)})
		}
	}
	return out
}

// raceSig: the pair of innermost library (or harness) function names of the two
// conflicting accesses, line numbers stripped, sorted.
func raceSig(block string) string {
	lines := strings.Split(block, "\n")
	var tops []string
	inAccess := false
	got := false
	for _, l := range lines {
		t := strings.TrimSpace(l)
		if strings.HasPrefix(t, "Read at ") || strings.HasPrefix(t, "Write at ") || strings.HasPrefix(t, "Previous read at ") || strings.HasPrefix(t, "Previous write at ") ||
			strings.HasPrefix(t, "Atomic") || strings.HasPrefix(t, "Previous atomic") {
			inAccess = true
			got = false
			continue
		}
		if strings.HasPrefix(t, "Goroutine ") {
			inAccess = false
			continue
		}
		if inAccess && !got && t != "" && !strings.HasPrefix(t, "/") && strings.HasSuffix(t, ")") {
			fn := strings.TrimSuffix(t, "()")
			if strings.HasPrefix(fn, "runtime.") || strings.HasPrefix(fn, "sync.") || strings.HasPrefix(fn, "sync/atomic.") {
				continue
			}
			fn = strings.TrimPrefix(fn, "github.com/at-wat/mqtt-go.")
			fn = regexp.MustCompile(`\.func[0-9.]+$`).ReplaceAllString(fn, ".func")
			tops = append(tops, fn)
			got = true
		}
	}
	sort.Strings(tops)
	if !strings.Contains(block, "github.com/at-wat/mqtt-go.") {
		// neither access nor any goroutine creation involves the library: a race of the harness with itself
		return "harness-race:" + strings.Join(tops, "<>")
	}
	return "race:" + strings.Join(tops, "<>")
}

// genCases is p.Gen, optionally narrowed by VERIF_ONLY=<substring of the case name> (exploration aid;
// no registered command sets it).
func genCases(p *Prop, tier string, seed int64) []Case {
	cases := p.Gen(tier, seed)
	only := os.Getenv("VERIF_ONLY")
	if only == "" {
		return cases
	}
	var out []Case
	for _, c := range cases {
		if strings.Contains(c.Name, only) {
			out = append(out, c)
		}
	}
	return out
}
