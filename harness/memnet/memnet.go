// Package memnet is the in-memory transport the library under test is run on,
// together with the single-timeline event log all monitors read. Everything is
// recorded at the library's boundary (Transport methods, callbacks, API calls),
// under one mutex, so that monitor state is updated atomically with the events
// it shadows.
package memnet

import (
	"errors"
	"fmt"
	"io"
	"net"
	"runtime"
	"strings"
	"sync"
	"sync/atomic"
	"time"

	"verif/mqttref"
)

// Event kinds.
const (
	KWrite     = "write"     // client -> broker write attempt (one per decoded packet)
	KSend      = "send"      // broker -> client packet queued
	KConsumed  = "consumed"  // client has read the last byte of a sent packet (Ref = seq of the send)
	KClose     = "close"     // Transport.Close called by the library
	KPeerClose = "peerclose" // broker side closed the connection
	KDialStart = "dial.start"
	KDialEnd   = "dial.end"
	KCall      = "api.call"
	KRet       = "api.ret"
	KState     = "cb.state"
	KStateRet  = "cb.state.ret" // the ConnState callback returned (Ref = seq of its entry)
	KOnError   = "cb.onerror"
	KHEnter    = "handler.enter"
	KHExit     = "handler.exit"
	KFault     = "fault"
	KDeliver   = "deliver" // broker delivered a message onward
	KNote      = "note"
	KHook      = "hook"
)

// Event is one entry of the timeline.
type Event struct {
	Seq  int
	T    time.Duration
	Kind string
	Conn int // connection ordinal (1-based), 0 = none
	Pkt  *mqttref.Packet
	Raw  []byte // raw bytes of a write attempt / send (kept only if Trace.KeepRaw)
	OK   bool   // write: the Write call succeeded
	Err  string
	S    string // api name / state / tag / free text
	S2   string
	N    int
	Off  int64  // send: end offset in the broker->client stream
	Ref  int    // consumed: seq of the send; api.ret: seq of the call
	G    int64  // goroutine-ish id for writes (not used for verdicts)
	Mal  string // write/send: class of malformation found by the strict decoder ("" = well-formed)
}

func (e Event) String() string {
	var b strings.Builder
	fmt.Fprintf(&b, "#%d +%.3fms c%d %s", e.Seq, float64(e.T)/1e6, e.Conn, e.Kind)
	if e.Pkt != nil {
		fmt.Fprintf(&b, " %s", e.Pkt)
	}
	if e.Kind == KWrite {
		fmt.Fprintf(&b, " ok=%v", e.OK)
	}
	if e.S != "" {
		fmt.Fprintf(&b, " %s", e.S)
	}
	if e.S2 != "" {
		fmt.Fprintf(&b, " %s", e.S2)
	}
	if e.Err != "" {
		fmt.Fprintf(&b, " err=%q", e.Err)
	}
	if e.Kind == KConsumed || e.Kind == KRet {
		fmt.Fprintf(&b, " ref=#%d", e.Ref)
	}
	if e.Mal != "" {
		fmt.Fprintf(&b, " MALFORMED[%s]", e.Mal)
	}
	return b.String()
}

// Trace is the single timeline of one scenario.
type Trace struct {
	Mu      sync.Mutex
	Events  []Event
	T0      time.Time
	Conns   []*Conn
	Online  []string // violations detected online (overlapping writes, oversized reads, ...)
	KeepRaw bool
	changed *sync.Cond
}

// NewTrace creates an empty timeline.
func NewTrace() *Trace {
	tr := &Trace{T0: time.Now()}
	tr.changed = sync.NewCond(&tr.Mu)
	return tr
}

// AddLocked appends an event; Mu must be held.
func (tr *Trace) AddLocked(e Event) int {
	e.Seq = len(tr.Events)
	e.T = time.Since(tr.T0)
	tr.Events = append(tr.Events, e)
	tr.changed.Broadcast()
	return e.Seq
}

// Add appends an event.
func (tr *Trace) Add(e Event) int {
	tr.Mu.Lock()
	defer tr.Mu.Unlock()
	return tr.AddLocked(e)
}

// Note adds a free-text note.
func (tr *Trace) Note(f string, a ...interface{}) {
	tr.Add(Event{Kind: KNote, S: fmt.Sprintf(f, a...)})
}

// Call records an API call and returns its seq.
func (tr *Trace) Call(api, tag string) int {
	return tr.Add(Event{Kind: KCall, S: api, S2: tag})
}

// Ret records the return of an API call.
func (tr *Trace) Ret(call int, api, tag string, err error) int {
	e := Event{Kind: KRet, S: api, S2: tag, Ref: call, OK: err == nil}
	if err != nil {
		e.Err = err.Error()
	}
	return tr.Add(e)
}

// OnlineViolation records a violation detected while running. Mu must NOT be held.
func (tr *Trace) OnlineViolation(f string, a ...interface{}) {
	tr.Mu.Lock()
	tr.onlineLocked(f, a...)
	tr.Mu.Unlock()
}

func (tr *Trace) onlineLocked(f string, a ...interface{}) {
	s := fmt.Sprintf(f, a...)
	tr.Online = append(tr.Online, s)
	tr.AddLocked(Event{Kind: KNote, S: "ONLINE-VIOLATION " + s})
}

// Len returns the number of events.
func (tr *Trace) Len() int {
	tr.Mu.Lock()
	defer tr.Mu.Unlock()
	return len(tr.Events)
}

// WaitFor blocks until cond (evaluated under Mu after every new event) is true
// or the watchdog d expires; it reports whether cond became true. The watchdog
// is never a verdict by itself.
func (tr *Trace) WaitFor(d time.Duration, cond func() bool) bool {
	deadline := time.Now().Add(d)
	stop := make(chan struct{})
	defer close(stop)
	go func() {
		t := time.NewTicker(2 * time.Millisecond)
		defer t.Stop()
		for {
			select {
			case <-stop:
				return
			case <-t.C:
				tr.Mu.Lock()
				tr.changed.Broadcast()
				tr.Mu.Unlock()
			}
		}
	}()
	tr.Mu.Lock()
	defer tr.Mu.Unlock()
	for !cond() {
		if time.Now().After(deadline) {
			return false
		}
		tr.changed.Wait()
	}
	return true
}

// Snapshot returns a copy of the events.
func (tr *Trace) Snapshot() []Event {
	tr.Mu.Lock()
	defer tr.Mu.Unlock()
	return append([]Event{}, tr.Events...)
}

// Dump renders the last n events (all if n<=0).
func (tr *Trace) Dump(n int) []string {
	ev := tr.Snapshot()
	if n > 0 && len(ev) > n {
		ev = ev[len(ev)-n:]
	}
	out := make([]string, len(ev))
	for i, e := range ev {
		out[i] = e.String()
	}
	return out
}

// Peer is the broker side of a connection. All methods are called with
// Trace.Mu held.
type Peer interface {
	// OnPacket is called once per complete client->broker packet. It may call
	// c.SendLocked / c.PeerCloseLocked. Returning true makes the Write that
	// carried the packet fail.
	OnPacket(c *Conn, raw []byte, p *mqttref.Packet, perr error) (failWrite bool)
	// OnClientClose is called when the library closes the transport.
	OnClientClose(c *Conn)
}

// ErrClosed is returned by reads/writes on a locally closed Conn.
var ErrClosed = errors.New("memnet: use of closed connection")

// Conn is the client side of an in-memory connection (io.ReadWriteCloser).
type Conn struct {
	Tr   *Trace
	ID   int
	Peer Peer

	// configuration (set before use)
	Chunk       int   // max bytes per Read (0 = as many as available)
	YieldWrite  bool  // yield inside Write to widen writer overlap windows
	SlowReturn  int   // Write yields/sleeps after the peer processed the bytes and before returning
	LateWriteOK bool  // writes after the peer closed succeed and are discarded (default: fail)
	WriteErr    error // error returned by failing writes (default io.ErrClosedPipe)
	ClosedErr   error // error returned by Read/Write/Close after the library closed the connection (default ErrClosed; real transports: io.ErrClosedPipe for net.Pipe, a *net.OpError wrapping net.ErrClosed for TCP)
	Stalled     bool  // the peer has stopped reading: Write blocks until the connection is closed (set under Tr.Mu)
	CloseErr    error // the first Close closes the connection AND returns this error (TLS close-notify failures, websocket close frames ...)
	CloseLinger int   // Close returns late: the connection is closed and its reader woken, then Close sleeps this many 100 µs slices before it returns

	cond        *sync.Cond
	rbuf        []byte
	sentTotal   int64
	Consumed    int64
	pendingSend []Event // sends not yet fully consumed
	PeerClosed  bool
	LocalClosed bool
	Parked      bool // the reader is blocked in Read on an empty buffer
	Reads       int
	MaxReadLen  int
	inW         int32
	framer      mqttref.Framer
	FrameErr    error
	Closes      int
	Writes      int
	UserData    interface{}
}

// NewConn creates a connection attached to peer.
func (tr *Trace) NewConn(peer Peer) *Conn {
	tr.Mu.Lock()
	defer tr.Mu.Unlock()
	c := &Conn{Tr: tr, ID: len(tr.Conns) + 1, Peer: peer}
	c.cond = sync.NewCond(&tr.Mu)
	tr.Conns = append(tr.Conns, c)
	return c
}

func goid() int64 {
	var buf [64]byte
	n := runtime.Stack(buf[:], false)
	// "goroutine 123 ["
	var id int64
	for _, ch := range buf[10:n] {
		if ch < '0' || ch > '9' {
			break
		}
		id = id*10 + int64(ch-'0')
	}
	return id
}

// Write implements io.Writer.
func (c *Conn) Write(b []byte) (int, error) {
	if n := atomic.AddInt32(&c.inW, 1); n > 1 {
		c.Tr.OnlineViolation("overlapping Transport.Write calls on connection %d (%d writers inside Write)", c.ID, n)
	}
	defer atomic.AddInt32(&c.inW, -1)
	if c.YieldWrite {
		runtime.Gosched()
	}
	n, err := c.write(b)
	if c.SlowReturn > 0 {
		// a Write that returns late: the peer's answer may be processed by the reader before the
		// writer continues (as on a fast loopback link)
		for i := 0; i < c.SlowReturn; i++ {
			runtime.Gosched()
		}
		time.Sleep(time.Duration(c.SlowReturn) * 20 * time.Microsecond)
	}
	return n, err
}

func (c *Conn) write(b []byte) (int, error) {
	tr := c.Tr
	tr.Mu.Lock()
	defer tr.Mu.Unlock()
	c.Writes++
	werr := c.WriteErr
	if werr == nil {
		werr = io.ErrClosedPipe
	}
	g := goid()
	if c.Stalled && !c.LocalClosed && !c.PeerClosed {
		tr.AddLocked(Event{Kind: KNote, Conn: c.ID, S: fmt.Sprintf("Write of %d bytes blocks: the peer has stopped reading", len(b))})
		for c.Stalled && !c.LocalClosed && !c.PeerClosed {
			c.cond.Wait()
		}
	}
	if c.LocalClosed || (c.PeerClosed && !c.LateWriteOK) {
		c.recordAttempt(b, false, g, "closed")
		if c.LocalClosed {
			return 0, c.closedErr()
		}
		return 0, werr
	}
	if c.PeerClosed {
		c.recordAttempt(b, true, g, "discarded-after-peer-close")
		return len(b), nil
	}
	if c.FrameErr != nil {
		c.recordAttempt(b, true, g, "after-frame-error")
		return len(b), nil
	}
	pkts, ferr := c.framer.Feed(b)
	fail := false
	for _, raw := range pkts {
		p, perr := mqttref.Decode(raw)
		idx := tr.AddLocked(Event{Kind: KWrite, Conn: c.ID, Pkt: p, OK: true, G: g, Mal: malClass(perr), Raw: c.keep(raw), N: len(raw)})
		if c.Peer != nil && c.Peer.OnPacket(c, raw, p, perr) {
			fail = true
			tr.Events[idx].OK = false
			tr.Events[idx].S = "write-failed-by-fault"
			break
		}
	}
	if ferr != nil {
		c.FrameErr = ferr
		tr.onlineLocked("client->broker stream on connection %d cannot be framed: %v", c.ID, ferr)
	}
	if len(pkts) == 0 && ferr == nil {
		// partial packet in one Write: legal for a byte stream, note it
		tr.AddLocked(Event{Kind: KNote, Conn: c.ID, S: fmt.Sprintf("partial write of %d bytes buffered by framer", len(b))})
	}
	if fail {
		return 0, werr
	}
	return len(b), nil
}

func (c *Conn) keep(raw []byte) []byte {
	if c.Tr.KeepRaw {
		return append([]byte{}, raw...)
	}
	return nil
}

func malClass(err error) string {
	if err == nil {
		return ""
	}
	if m, ok := err.(*mqttref.Malformed); ok {
		return m.Class + ": " + m.Detail
	}
	return err.Error()
}

// recordAttempt logs a write that did not reach the peer; the bytes are decoded
// standalone (the library writes one packet per Write call).
func (c *Conn) recordAttempt(b []byte, ok bool, g int64, why string) {
	rest := b
	for len(rest) > 0 {
		n, err := mqttref.Frame(rest)
		if err != nil {
			c.Tr.AddLocked(Event{Kind: KWrite, Conn: c.ID, OK: ok, G: g, S: why, Mal: "unframeable: " + err.Error(), N: len(rest), Raw: c.keep(rest)})
			return
		}
		p, perr := mqttref.Decode(rest[:n])
		c.Tr.AddLocked(Event{Kind: KWrite, Conn: c.ID, Pkt: p, OK: ok, G: g, S: why, Mal: malClass(perr), N: n, Raw: c.keep(rest[:n])})
		rest = rest[n:]
	}
}

// Read implements io.Reader.
func (c *Conn) Read(p []byte) (int, error) {
	tr := c.Tr
	tr.Mu.Lock()
	defer tr.Mu.Unlock()
	c.Reads++
	if len(p) > c.MaxReadLen {
		c.MaxReadLen = len(p)
	}
	if len(p) > mqttref.MaxRemaining {
		tr.onlineLocked("Read with a %d-byte buffer on connection %d exceeds the protocol maximum packet size", len(p), c.ID)
	}
	for len(c.rbuf) == 0 && !c.PeerClosed && !c.LocalClosed {
		c.Parked = true
		tr.changed.Broadcast()
		c.cond.Wait()
	}
	c.Parked = false
	if c.LocalClosed {
		return 0, c.closedErr()
	}
	if len(c.rbuf) == 0 {
		return 0, io.EOF
	}
	n := len(p)
	if c.Chunk > 0 && n > c.Chunk {
		n = c.Chunk
	}
	if n > len(c.rbuf) {
		n = len(c.rbuf)
	}
	copy(p, c.rbuf[:n])
	c.rbuf = c.rbuf[n:]
	c.Consumed += int64(n)
	for len(c.pendingSend) > 0 && c.pendingSend[0].Off <= c.Consumed {
		s := c.pendingSend[0]
		c.pendingSend = c.pendingSend[1:]
		tr.AddLocked(Event{Kind: KConsumed, Conn: c.ID, Ref: s.Seq, Pkt: s.Pkt, S: s.S})
	}
	return n, nil
}

// Close implements io.Closer (called by the library).
func (c *Conn) Close() error {
	tr := c.Tr
	tr.Mu.Lock()
	c.Closes++
	tr.AddLocked(Event{Kind: KClose, Conn: c.ID, N: c.Closes})
	if c.LocalClosed {
		tr.Mu.Unlock()
		return c.closedErr()
	}
	c.LocalClosed = true
	c.cond.Broadcast()
	if c.Peer != nil {
		c.Peer.OnClientClose(c)
	}
	linger := c.CloseLinger
	cerr := c.CloseErr
	tr.Mu.Unlock()
	for i := 0; i < linger; i++ {
		time.Sleep(100 * time.Microsecond)
	}
	return cerr
}

func (c *Conn) closedErr() error {
	if c.ClosedErr != nil {
		return c.ClosedErr
	}
	return ErrClosed
}

// NetClosedErr is what a TCP connection returns after a local Close.
var NetClosedErr error = &net.OpError{Op: "read", Net: "tcp", Err: net.ErrClosed}

// SendLocked queues broker->client bytes forming one packet (or arbitrary bytes
// when pkt is nil); Mu must be held. tag is stored in the event.
func (c *Conn) SendLocked(raw []byte, tag string) int {
	if c.PeerClosed || c.LocalClosed {
		return -1
	}
	p, perr := mqttref.Decode(raw)
	c.rbuf = append(c.rbuf, raw...)
	c.sentTotal += int64(len(raw))
	e := Event{Kind: KSend, Conn: c.ID, Pkt: p, Mal: malClass(perr), Off: c.sentTotal, S: tag, N: len(raw), Raw: c.keep(raw)}
	seq := c.Tr.AddLocked(e)
	e.Seq = seq
	c.pendingSend = append(c.pendingSend, e)
	c.cond.Broadcast()
	return seq
}

// Send queues broker->client bytes.
func (c *Conn) Send(raw []byte, tag string) int {
	c.Tr.Mu.Lock()
	defer c.Tr.Mu.Unlock()
	return c.SendLocked(raw, tag)
}

// PeerCloseLocked closes the connection from the broker side (buffered bytes
// stay readable, then EOF). Mu must be held.
func (c *Conn) PeerCloseLocked(why string) {
	if c.PeerClosed {
		return
	}
	c.PeerClosed = true
	c.Tr.AddLocked(Event{Kind: KPeerClose, Conn: c.ID, S: why})
	c.cond.Broadcast()
}

// PeerClose closes the connection from the broker side.
func (c *Conn) PeerClose(why string) {
	c.Tr.Mu.Lock()
	defer c.Tr.Mu.Unlock()
	c.PeerCloseLocked(why)
}

// Buffered returns the number of unread broker->client bytes. Mu must be held.
func (c *Conn) BufferedLocked() int { return len(c.rbuf) }

// Open reports whether neither side closed the connection. Mu must be held.
func (c *Conn) OpenLocked() bool { return !c.PeerClosed && !c.LocalClosed }
