package checks

import (
	"context"
	"errors"
	"fmt"
	"math/rand"
	"sync"
	"time"

	mqtt "github.com/at-wat/mqtt-go"
	"verif/fw"
	"verif/memnet"
	"verif/mqttref"
	"verif/scen"
)

type c07Params struct {
	N int `json:"n"`
}

func c07Gen(tier string, seed int64) []fw.Case {
	n := 25
	if tier == "thorough" {
		n = 5000
	}
	var cs []fw.Case
	for i := 0; i < 32; i++ {
		cs = append(cs, fw.Mk(fmt.Sprintf("scripts-%d", i), c07Params{N: n}))
	}
	return cs
}

type c07Call struct {
	kind    string // p1 p2 sub unsub
	tag     string
	nf      int // filters for sub
	id      uint16
	callSeq int
	retSeq  int
	err     error
	subs    []mqtt.Subscription
	done    bool
	// acks sent by the script (seq of the send event)
	ackSeq, recSeq, relSeq int
	codes                  []byte
	wrongLen               bool
	orphan                 bool // never acknowledged: the application disconnects while it waits
}

// c07Script runs one scripted exchange; returns violation or "".
func c07Script(rng *rand.Rand) (sig, detail string, trace []string, shape string, stats map[string]int) {
	stats = map[string]int{}
	tr := memnet.NewTrace()
	peer := &scen.Script{Tr: tr, AutoConnack: true, AutoPing: true}
	cli, conn := scen.NewBase(tr, peer)
	conn.Chunk = []int{0, 0, 1, 3}[rng.Intn(4)]
	conn.SlowReturn = []int{0, 0, 2}[rng.Intn(3)] // a late-returning Write: the acknowledgement may be processed before the writer continues
	if err := scen.ConnectBase(cli); err != nil {
		return "harness", err.Error(), nil, "", stats
	}
	defer cli.Close()
	// ---- ghost phase: calls that are cancelled while waiting; their acknowledgements arrive later, in the foreign
	// phase, when other calls (with other ids) are waiting
	var ghostAcks [][]byte
	nGhost := 0
	if rng.Intn(2) == 0 {
		nGhost = 1 + rng.Intn(4)
		type ghost struct {
			kind   string
			cancel context.CancelFunc
			done   chan error
		}
		var ghosts []*ghost
		for i := 0; i < nGhost; i++ {
			gctx, gcancel := context.WithCancel(context.Background())
			g := &ghost{kind: []string{"p1", "p1", "p2", "sub", "unsub"}[rng.Intn(5)], cancel: gcancel, done: make(chan error, 1)}
			ghosts = append(ghosts, g)
			tag := fmt.Sprintf("g%d", i)
			go func() {
				cs := tr.Call("ghost-"+g.kind, tag)
				var err error
				switch g.kind {
				case "p1":
					err = cli.Publish(gctx, &mqtt.Message{Topic: "c7/" + tag, QoS: mqtt.QoS1, Payload: []byte(tag)})
				case "p2":
					err = cli.Publish(gctx, &mqtt.Message{Topic: "c7/" + tag, QoS: mqtt.QoS2, Payload: []byte(tag)})
				case "sub":
					_, err = cli.Subscribe(gctx, mqtt.Subscription{Topic: "c7/" + tag + "/0", QoS: mqtt.QoS1})
				case "unsub":
					err = cli.Unsubscribe(gctx, "c7/"+tag+"/0")
				}
				tr.Ret(cs, "ghost-"+g.kind, tag, err)
				g.done <- err
			}()
		}
		gin, ok := peer.WaitIn(scen.Watchdog, nGhost, func(p *mqttref.Packet) bool {
			return p.Type == mqttref.PUBLISH || p.Type == mqttref.SUBSCRIBE || p.Type == mqttref.UNSUBSCRIBE
		})
		if !ok {
			return "inconclusive", "ghost requests did not reach the peer", tr.Dump(40), "", stats
		}
		for _, ip := range gin {
			if ip.P.Type == mqttref.PUBLISH && ip.P.QoS == 2 && rng.Intn(2) == 0 {
				// this one gets its PUBREC and is cancelled while waiting for PUBCOMP
				id := ip.P.ID
				conn.Send(mqttref.EncAck(mqttref.PUBREC, id), "ghost-rec")
				if _, ok := peer.WaitIn(scen.Watchdog, 1, func(p *mqttref.Packet) bool { return p.Type == mqttref.PUBREL && p.ID == id }); !ok {
					return "inconclusive", "ghost PUBREL not seen", tr.Dump(40), "", stats
				}
				ghostAcks = append(ghostAcks, mqttref.EncAck(mqttref.PUBCOMP, id))
				stats["cancelled_while_waiting_pubcomp"]++
				continue
			}
			ghostAcks = append(ghostAcks, scen.AckFor(ip.P))
			if ip.P.Type == mqttref.PUBLISH && ip.P.QoS == 2 {
				ghostAcks = append(ghostAcks, mqttref.EncAck(mqttref.PUBCOMP, ip.P.ID))
			}
		}
		for _, g := range ghosts {
			g.cancel()
			select {
			case err := <-g.done:
				if !errors.Is(err, context.Canceled) {
					if err == nil {
						return "completed-without-own-ack", fmt.Sprintf("%s cancelled while waiting for its (final) acknowledgement returned nil: success without the acknowledgement", g.kind), tr.Dump(60), "", stats
					}
					return "disturbed", fmt.Sprintf("cancelled %s returned %v, want its context's error", g.kind, err), tr.Dump(60), "", stats
				}
			case <-time.After(scen.Watchdog):
				return "inconclusive", "cancelled call did not return within the watchdog (C11's business)", tr.Dump(40), "", stats
			}
		}
		stats["cancelled_calls_answered_late"] += nGhost
	}
	// ---- resumed phase: a QoS 2 publish interrupted on an earlier connection after its PUBREL is taken up again on
	// this client through its retry handle and waits for PUBCOMP here, next to the fresh calls below
	var resumedID uint16
	var resumedDone chan error
	nResumedReq := 0
	if rng.Intn(3) == 0 {
		nResumedReq = 1 // its PUBLISH on the earlier connection is in the peer's log too
		cliA, connA := scen.NewBase(tr, peer)
		if err := scen.ConnectBase(cliA); err != nil {
			return "harness", err.Error(), nil, "", stats
		}
		ares := make(chan error, 1)
		actx, acancel := context.WithTimeout(context.Background(), scen.Watchdog)
		go func() {
			ares <- cliA.Publish(actx, &mqtt.Message{Topic: "c7/resumed", QoS: mqtt.QoS2, Payload: []byte("resumed")})
		}()
		rin, ok := peer.WaitIn(scen.Watchdog, 1, func(p *mqttref.Packet) bool { return p.Type == mqttref.PUBLISH && p.Topic == "c7/resumed" })
		if !ok {
			acancel()
			return "inconclusive", "resumed publish not seen", tr.Dump(30), "", stats
		}
		rid := rin[0].P.ID
		connA.Send(mqttref.EncAck(mqttref.PUBREC, rid), "rec for the publish to be resumed")
		if _, ok := peer.WaitIn(scen.Watchdog, 1, func(p *mqttref.Packet) bool { return p.Type == mqttref.PUBREL && p.ID == rid }); !ok {
			acancel()
			return "inconclusive", "PUBREL of the publish to be resumed not seen", tr.Dump(30), "", stats
		}
		connA.PeerClose("cut after PUBREL")
		var aerr error
		select {
		case aerr = <-ares:
		case <-time.After(scen.Watchdog):
			acancel()
			return "inconclusive", "interrupted publish did not return", tr.Dump(30), "", stats
		}
		acancel()
		cliA.Close()
		if rh, ok := aerr.(mqtt.ErrorWithRetry); ok {
			resumedID = rid
			resumedDone = make(chan error, 1)
			go func() {
				cs := tr.Call("resumed-p2", "")
				err := rh.Retry(context.Background(), cli)
				tr.Ret(cs, "resumed-p2", "", err)
				resumedDone <- err
			}()
			// its PUBREL goes out again on this connection
			if _, ok := peer.WaitIn(scen.Watchdog, 2, func(p *mqttref.Packet) bool { return p.Type == mqttref.PUBREL && p.ID == rid }); !ok {
				return "inconclusive", "resumed PUBREL not seen on the new connection", tr.Dump(30), "", stats
			}
		}
	}
	n := 1 + rng.Intn(24)
	if rng.Intn(3) == 0 {
		n = 1 + rng.Intn(4)
	}
	wrongLenCall := -1
	if rng.Intn(4) == 0 {
		wrongLenCall = 0 // decided below: the first subscribe gets a wrong-length SUBACK, released last
	}
	calls := make([]*c07Call, n)
	var mu sync.Mutex
	var wg sync.WaitGroup
	ctx, cancel := context.WithTimeout(context.Background(), 4*scen.Watchdog)
	defer cancel()
	for i := range calls {
		k := &c07Call{kind: []string{"p1", "p2", "p2", "sub", "unsub"}[rng.Intn(5)], tag: fmt.Sprintf("k%d", i), ackSeq: -1, recSeq: -1, relSeq: -1}
		if k.kind == "sub" {
			k.nf = 1 + rng.Intn(4)
		}
		calls[i] = k
	}
	fail := func(sg, f string, a ...interface{}) (string, string, []string, string, map[string]int) {
		return sg, fmt.Sprintf(f, a...), tr.Dump(80), "", stats
	}
	for _, k := range calls {
		wg.Add(1)
		go func(k *c07Call) {
			defer wg.Done()
			cs := tr.Call(k.kind, k.tag)
			var err error
			var subs []mqtt.Subscription
			switch k.kind {
			case "p1":
				err = cli.Publish(ctx, &mqtt.Message{Topic: "c7/" + k.tag, QoS: mqtt.QoS1, Payload: []byte(k.tag)})
			case "p2":
				err = cli.Publish(ctx, &mqtt.Message{Topic: "c7/" + k.tag, QoS: mqtt.QoS2, Payload: []byte(k.tag)})
			case "sub":
				var req []mqtt.Subscription
				for j := 0; j < k.nf; j++ {
					req = append(req, mqtt.Subscription{Topic: fmt.Sprintf("c7/%s/%d", k.tag, j), QoS: mqtt.QoS(j % 3)})
				}
				subs, err = cli.Subscribe(ctx, req...)
			case "unsub":
				err = cli.Unsubscribe(ctx, "c7/"+k.tag+"/0")
			}
			mu.Lock()
			k.err, k.subs, k.callSeq, k.done = err, subs, cs, true
			mu.Unlock()
			rs := tr.Ret(cs, k.kind, k.tag, err)
			mu.Lock()
			k.retSeq = rs
			mu.Unlock()
		}(k)
	}
	// wait until the peer has seen all n requests and learn their ids
	isReq := func(p *mqttref.Packet) bool {
		return p.Type == mqttref.PUBLISH || p.Type == mqttref.SUBSCRIBE || p.Type == mqttref.UNSUBSCRIBE
	}
	in, ok := peer.WaitIn(scen.Watchdog, n+nGhost+nResumedReq, isReq)
	if !ok {
		return "inconclusive", fmt.Sprintf("only %d of %d requests reached the peer", len(in), n+nGhost+nResumedReq), tr.Dump(40), "", stats
	}
	byTag := map[string]*c07Call{}
	for _, k := range calls {
		byTag[k.tag] = k
	}
	used := map[uint16]bool{}
	if resumedID != 0 {
		used[resumedID] = true
	}
	for _, ip := range in {
		var tag string
		if ip.P.Type == mqttref.PUBLISH && ip.P.Topic == "c7/resumed" {
			continue
		}
		switch ip.P.Type {
		case mqttref.PUBLISH:
			tag = string(ip.P.Payload)
		case mqttref.SUBSCRIBE:
			fmt.Sscanf(ip.P.Subs[0].Filter, "c7/%s", &tag)
			tag = tag[:len(tag)-2]
		case mqttref.UNSUBSCRIBE:
			fmt.Sscanf(ip.P.Filters[0], "c7/%s", &tag)
			tag = tag[:len(tag)-2]
		}
		k := byTag[tag]
		if k == nil && len(tag) > 0 && tag[0] == 'g' {
			used[ip.P.ID] = true // a cancelled call's id: its late acknowledgement belongs to nobody now
			continue
		}
		if k == nil {
			return fail("harness", "unmatched request %v", ip.P)
		}
		k.id = ip.P.ID
		if resumedID != 0 && k.id == resumedID {
			// the identifier the resumed publish brought along from its earlier connection happens to be the one a
			// fresh request drew here (identifiers start at a random point per connection): ambiguous, not judged
			stats["skipped_resumed_id_met_fresh_id"]++
			cancel()
			cli.Close()
			return "", "", nil, "skipped/resumed-id-collision", stats
		}
		if used[k.id] {
			return fail("id-collision", "two concurrent requests carry id %d", k.id)
		}
		used[k.id] = true
	}
	returnedEarly := func(phase string) (string, string, []string, string, map[string]int, bool) {
		mu.Lock()
		defer mu.Unlock()
		for _, k := range calls {
			if k.done && k.ackSeq < 0 {
				s, d, t, sh, st := fail("completed-without-own-ack", "%s %s (id %d) returned (err=%v) during the %s, before its own acknowledgement was sent", k.kind, k.tag, k.id, k.err, phase)
				return s, d, t, sh, st, true
			}
		}
		return "", "", nil, "", nil, false
	}
	// ---- foreign phase
	nForeign := 0
	if rng.Intn(8) != 0 || len(ghostAcks) > 0 {
		foreign := append([][]byte{}, ghostAcks...)
		freeID := func() uint16 {
			for {
				id := uint16(1 + rng.Intn(65535))
				if !used[id] {
					return id
				}
			}
		}
		for _, k := range calls {
			ownFinal := map[string]int{"p1": mqttref.PUBACK, "p2": mqttref.PUBREC, "sub": mqttref.SUBACK, "unsub": mqttref.UNSUBACK}[k.kind]
			for _, t := range []int{mqttref.PUBACK, mqttref.PUBREC, mqttref.PUBCOMP, mqttref.SUBACK, mqttref.UNSUBACK} {
				if t == ownFinal || rng.Intn(2) == 0 {
					continue
				}
				if t == mqttref.SUBACK {
					foreign = append(foreign, mqttref.EncSubAck(k.id, []byte{1, 2}[:1+rng.Intn(2)])) // other kind, same id
				} else {
					foreign = append(foreign, mqttref.EncAck(t, k.id))
				}
			}
		}
		for i := rng.Intn(6); i > 0; i-- { // unsolicited: ids nobody uses
			t := []int{mqttref.PUBACK, mqttref.PUBREC, mqttref.PUBCOMP, mqttref.UNSUBACK}[rng.Intn(4)]
			foreign = append(foreign, mqttref.EncAck(t, freeID()))
			if rng.Intn(2) == 0 {
				foreign = append(foreign, mqttref.EncSubAck(freeID(), []byte{0}))
			}
		}
		rng.Shuffle(len(foreign), func(i, j int) { foreign[i], foreign[j] = foreign[j], foreign[i] })
		for _, f := range foreign {
			conn.Send(f, "foreign")
			if rng.Intn(3) == 0 {
				conn.Send(f, "foreign-dup")
			}
			nForeign++
		}
		if err := scen.Barrier(cli); err != nil {
			if scen.IsDeadline(err) && !scen.CertifyStuck(tr, conn) {
				return "inconclusive", "barrier watchdog fired while the connection was still making progress", tr.Dump(40), "", stats
			}
			return fail("disturbed-by-foreign-ack", "after foreign/unsolicited acknowledgements the connection failed: %v (Err=%v)", err, cli.Err())
		}
		time.Sleep(300 * time.Microsecond)
		if s, d, t, sh, st, bad := returnedEarly("foreign-acknowledgement phase"); bad {
			return s, d, t, sh, st
		}
	}
	stats["foreign_acks"] = nForeign
	// ---- release phase, seeded permutation
	order := rng.Perm(n)
	if wrongLenCall >= 0 {
		wrongLenCall = -1
		for _, i := range order {
			if calls[i].kind == "sub" {
				wrongLenCall = i
				break
			}
		}
		if wrongLenCall >= 0 { // move to the end
			var o2 []int
			for _, i := range order {
				if i != wrongLenCall {
					o2 = append(o2, i)
				}
			}
			order = append(o2, wrongLenCall)
		}
	}
	// orphans: 1-2 calls are never acknowledged; the application calls Disconnect while they wait
	if wrongLenCall < 0 && n >= 2 && rng.Intn(4) == 0 {
		for _, i := range order[:1+rng.Intn(2)] {
			calls[i].orphan = true
		}
	}
	for _, i := range order {
		k := calls[i]
		if k.orphan {
			continue
		}
		switch k.kind {
		case "p1":
			mu.Lock()
			k.ackSeq = conn.Send(mqttref.EncAck(mqttref.PUBACK, k.id), "own")
			mu.Unlock()
		case "unsub":
			mu.Lock()
			k.ackSeq = conn.Send(mqttref.EncAck(mqttref.UNSUBACK, k.id), "own")
			mu.Unlock()
		case "sub":
			codes := make([]byte, k.nf)
			for j := range codes {
				codes[j] = []byte{0, 1, 2, 0x80}[rng.Intn(4)]
			}
			if i == wrongLenCall {
				// the wrong-length SUBACK makes the library close the connection: every other call must
				// have returned before (a call whose acknowledgement arrives together with the close may
				// legitimately pick the close in its select)
				deadline := time.Now().Add(scen.Watchdog)
				for time.Now().Before(deadline) {
					mu.Lock()
					pending := 0
					for j, o := range calls {
						if j != i && !o.done {
							pending++
						}
					}
					mu.Unlock()
					if pending == 0 {
						break
					}
					time.Sleep(100 * time.Microsecond)
				}
				k.wrongLen = true
				if rng.Intn(2) == 0 {
					codes = append(codes, byte(rng.Intn(3)))
				} else {
					codes = codes[:len(codes)-1]
				}
			}
			k.codes = codes
			mu.Lock()
			k.ackSeq = conn.Send(mqttref.EncSubAck(k.id, codes), "own")
			mu.Unlock()
		case "p2":
			k.recSeq = conn.Send(mqttref.EncAck(mqttref.PUBREC, k.id), "own-rec")
			rel, ok := peer.WaitIn(scen.Watchdog, 1, func(p *mqttref.Packet) bool { return p.Type == mqttref.PUBREL && p.ID == k.id })
			if !ok {
				mu.Lock()
				done, err := k.done, k.err
				mu.Unlock()
				if done {
					return fail("completed-without-own-ack", "QoS 2 publish %s (id %d) returned (err=%v) after PUBREC without sending PUBREL / receiving PUBCOMP", k.tag, k.id, err)
				}
				return "inconclusive", "PUBREL not seen within the watchdog", tr.Dump(40), "", stats
			}
			k.relSeq = rel[0].Seq
			if rng.Intn(3) == 0 {
				if err := scen.Barrier(cli); err != nil {
					return fail("disturbed", "barrier failed: %v", err)
				}
				mu.Lock()
				done := k.done
				mu.Unlock()
				if done {
					return fail("completed-without-own-ack", "QoS 2 publish %s (id %d) returned before PUBCOMP was sent", k.tag, k.id)
				}
			}
			mu.Lock()
			k.ackSeq = conn.Send(mqttref.EncAck(mqttref.PUBCOMP, k.id), "own")
			mu.Unlock()
		}
		if rng.Intn(4) == 0 {
			scen.Barrier(cli)
		}
	}
	// ---- the resumed publish gets its PUBCOMP now: it must not have returned before, and it returns after
	if resumedDone != nil && wrongLenCall < 0 {
		select {
		case err := <-resumedDone:
			return fail("completed-without-own-ack", "the resumed QoS 2 publish (id %d) returned %v before its PUBCOMP was sent", resumedID, err)
		default:
		}
		conn.Send(mqttref.EncAck(mqttref.PUBCOMP, resumedID), "own-resumed")
		select {
		case err := <-resumedDone:
			if err != nil {
				return fail("disturbed", "the resumed QoS 2 publish (id %d) failed although its PUBCOMP was sent: %v", resumedID, err)
			}
			stats["resumed_qos2_completed_next_to_fresh_calls"]++
		case <-time.After(scen.Watchdog):
			tr.Mu.Lock()
			parked := conn.Parked && conn.BufferedLocked() == 0
			tr.Mu.Unlock()
			if parked {
				return fail("never-completes", "the PUBCOMP of the resumed QoS 2 publish (id %d) was consumed by the client (reader parked on empty input) but its Retry call did not return", resumedID)
			}
			return "inconclusive", "resumed publish not returned within the watchdog, reader not parked", tr.Dump(60), "", stats
		}
	}
	// ---- orphans: wait for the acknowledged calls, then Disconnect
	norphan := 0
	for _, k := range calls {
		if k.orphan {
			norphan++
		}
	}
	if norphan > 0 {
		deadline := time.Now().Add(scen.Watchdog)
		for time.Now().Before(deadline) {
			mu.Lock()
			pending := 0
			for _, k := range calls {
				if !k.orphan && !k.done {
					pending++
				}
			}
			mu.Unlock()
			if pending == 0 {
				break
			}
			time.Sleep(100 * time.Microsecond)
		}
		if s, d, t, sh, st, bad := returnedEarlyOrphans(calls, &mu, fail); bad {
			return s, d, t, sh, st
		}
		dctx, dcancel := context.WithTimeout(context.Background(), scen.Watchdog)
		cs := tr.Call("Disconnect", "")
		derr := cli.Disconnect(dctx)
		tr.Ret(cs, "Disconnect", "", derr)
		dcancel()
		stats["calls_pending_at_disconnect"] += norphan
	}
	// ---- everything released: every call must return
	allDone := make(chan struct{})
	go func() { wg.Wait(); close(allDone) }()
	select {
	case <-allDone:
	case <-time.After(scen.Watchdog):
		tr.Mu.Lock()
		parked := conn.Parked && conn.BufferedLocked() == 0
		tr.Mu.Unlock()
		var stuck []string
		mu.Lock()
		for _, k := range calls {
			if !k.done {
				stuck = append(stuck, fmt.Sprintf("%s %s id=%d", k.kind, k.tag, k.id))
			}
		}
		mu.Unlock()
		if parked {
			return fail("never-completes", "all acknowledgements were consumed by the client (reader parked on empty input) but %v did not return", stuck)
		}
		return "inconclusive", fmt.Sprintf("calls %v not returned within watchdog, reader not parked", stuck), tr.Dump(60), "", stats
	}
	// ---- oracle over the timeline
	shape = fmt.Sprintf("n=%d foreign=%d wrong=%v kinds=", n, nForeign, wrongLenCall >= 0)
	for _, k := range calls {
		shape += k.kind + ","
		if k.orphan {
			if k.err == nil {
				return fail("completed-without-own-ack", "%s %s (id %d) returned nil although its acknowledgement was never sent: the application disconnected while it was waiting", k.kind, k.tag, k.id)
			}
			continue
		}
		if k.wrongLen {
			if !errors.Is(k.err, mqtt.ErrInvalidSubAck) {
				return fail("suback-count-not-checked", "Subscribe(%d filters) answered by SUBACK with %d codes returned subs=%v err=%v, want ErrInvalidSubAck", k.nf, len(k.codes), k.subs, k.err)
			}
			stats["wrong_length_suback"]++
			continue
		}
		if k.err != nil {
			return fail("disturbed", "%s %s (id %d) failed although its acknowledgement was sent and nothing else was injected: %v", k.kind, k.tag, k.id, k.err)
		}
		if k.retSeq < k.ackSeq || k.callSeq > k.ackSeq {
			return fail("completed-without-own-ack", "%s %s (id %d) returned at #%d, its acknowledgement was sent at #%d", k.kind, k.tag, k.id, k.retSeq, k.ackSeq)
		}
		if k.kind == "p2" && !(k.recSeq < k.relSeq && k.relSeq < k.ackSeq) {
			return fail("qos2-order", "QoS 2 %s: PUBREC sent #%d, PUBREL written #%d, PUBCOMP sent #%d", k.tag, k.recSeq, k.relSeq, k.ackSeq)
		}
		if k.kind == "sub" {
			if len(k.subs) != k.nf {
				return fail("suback-vector", "Subscribe(%d filters) returned %v", k.nf, k.subs)
			}
			for j, s := range k.subs {
				if s.Topic != fmt.Sprintf("c7/%s/%d", k.tag, j) || byte(s.QoS) != k.codes[j] {
					return fail("suback-vector", "Subscribe %s: SUBACK codes %v, returned %v", k.tag, k.codes, k.subs)
				}
			}
		}
	}
	stats["calls"] = n
	return "", "", nil, shape, stats
}

func c07Run(c fw.Case, env *fw.Env) fw.Result {
	var p c07Params
	fw.Params(c, &p)
	rng := env.Rng(c)
	r := fw.Result{Counters: map[string]int{}}
	for i := 0; i < p.N; i++ {
		sub := rand.New(rand.NewSource(rng.Int63()))
		sig, det, trc, shape, st := c07Script(sub)
		r.Evals++
		for k, v := range st {
			r.Counters[k] += v
		}
		switch sig {
		case "":
			r.NT = append(r.NT, fw.Hash(c.Idx, i, shape))
			if r.Sample == nil {
				r.Sample = map[string]interface{}{"script": shape}
			}
		case "inconclusive", "harness":
			r.Counters["inconclusive_scripts"]++
			if r.Counters["inconclusive_scripts"] > 2 {
				r.Verdict = fw.Inconclusive
				r.Detail = det
				return r
			}
		default:
			r.Verdict = fw.Violated
			r.Sig = sig
			r.Detail = fmt.Sprintf("%s\n(script %d of case; replay re-runs the whole case)", det, i)
			r.Trace = trc
			return r
		}
	}
	return r
}

func init() {
	fw.Register(&fw.Prop{
		ID:    "C07",
		Level: "exploration",
		Rule: "seeded scripts against a real BaseClient and a manual-mode peer: 1-24 concurrent callers (publish QoS1/QoS2, subscribe 1-4 filters, unsubscribe); the peer first injects foreign acknowledgements (every other kind carrying each request's id incl. PUBCOMP before PUBREC, unused ids, duplicates), " +
			"then a Ping barrier (serve is sequential) proves they were processed, then the right acknowledgements are released in a seeded permutation (PUBREC -> wait PUBREL -> PUBCOMP), SUBACK vectors from {0,1,2,0x80}^n and wrong-length vectors. " +
			"Oracle on the single timeline: a call returns nil only after the send event of its own acknowledgement (QoS2: PUBREC < PUBREL < PUBCOMP < return), nobody returns in the foreign phase, Subscribe returns exactly the sent vector, wrong count => ErrInvalidSubAck, all calls return once released. Non-trivial: each distinct script.",
		Assumptions: []string{"requests of one script carry distinct ids (checked)", "a wrong-length SUBACK closes the connection by design, so it is released last"},
		Gen:         c07Gen,
		Run:         c07Run,
	})
}

// returnedEarlyOrphans: an orphan must still be waiting before Disconnect is called.
func returnedEarlyOrphans(calls []*c07Call, mu *sync.Mutex, fail func(string, string, ...interface{}) (string, string, []string, string, map[string]int)) (string, string, []string, string, map[string]int, bool) {
	mu.Lock()
	defer mu.Unlock()
	for _, k := range calls {
		if k.orphan && k.done {
			s, d, t, sh, st := fail("completed-without-own-ack", "%s %s (id %d) returned (err=%v) although its acknowledgement was never sent", k.kind, k.tag, k.id, k.err)
			return s, d, t, sh, st, true
		}
	}
	return "", "", nil, "", nil, false
}
