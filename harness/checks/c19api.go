package checks

import (
	"context"
	"errors"
	"fmt"
	"io"
	"math/rand"
	"strings"
	"sync"
	"time"

	mqtt "github.com/at-wat/mqtt-go"
	"verif/fw"
	"verif/memnet"
	"verif/mqttref"
	"verif/scen"
)

type c19API struct {
	Mode  string `json:"mode"`  // "api"
	Kind  string `json:"kind"`  // pub1 pub2 pub2comp sub unsub
	Cause string `json:"cause"` // write-closedpipe write-custom write-wrapeof peerclose cancel deadline
	Rep   int    `json:"rep"`
}

var c19Kinds = []string{"pub1", "pub2", "pub2comp", "sub", "unsub"}
var c19Causes = []string{"write-closedpipe", "write-custom", "write-wrapeof", "peerclose", "cancel", "deadline"}

func c19APIcases(tier string) []fw.Case {
	var cs []fw.Case
	for _, k := range c19Kinds {
		for _, ca := range c19Causes {
			cs = append(cs, fw.Mk("api/"+k+"/"+ca, c19API{Mode: "api", Kind: k, Cause: ca, Rep: scale(tier, 2, 300)}))
		}
	}
	cs = append(cs, fw.Mk("api/misc", c19API{Mode: "api", Kind: "misc", Rep: scale(tier, 2, 300)}))
	for _, cause := range []string{"malformed", "overlong-length", "eof"} {
		cs = append(cs, fw.Mk("api/connection-end-cause/"+cause, c19API{Mode: "api", Kind: "endcause", Cause: cause, Rep: scale(tier, 4, 200)}))
	}
	for i, w := range []string{"q1x3", "q2x2", "mixed", "waits"} {
		cs = append(cs, fw.Mk(fmt.Sprintf("api/response-timeouts-%d-%s", i, w), c19API{Mode: "api", Kind: "timeouts", Cause: w, Rep: 1}))
	}
	for i := 0; i < 8; i++ {
		cs = append(cs, fw.Mk(fmt.Sprintf("api/retry-chains-%d", i), c19API{Mode: "api", Kind: "chain", Rep: scale(tier, 40, 3000)}))
	}
	return cs
}

type customErr struct{ s string }

func (e *customErr) Error() string { return e.s }

var errCustomWrite = &customErr{"custom transport failure"}

func c19APIRun(c fw.Case, env *fw.Env) fw.Result {
	var p c19API
	fw.Params(c, &p)
	r := fw.Result{Counters: map[string]int{}}
	rng := env.Rng(c)
	for i := 0; i < p.Rep; i++ {
		var sig, det string
		var trc []string
		if p.Kind == "misc" {
			sig, det = c19Misc()
		} else if p.Kind == "endcause" {
			sig, det, trc = c19EndCause(p.Cause, i)
		} else if p.Kind == "timeouts" {
			sig, det, trc = c19Timeouts(p.Cause, r.Counters)
		} else if p.Kind == "chain" {
			sig, det, trc = c19Chain(rng, i)
			r.Counters["retry_chains"]++
		} else {
			sig, det, trc = c19Interrupt(p.Kind, p.Cause, i)
		}
		r.Evals++
		if sig == "inconclusive" {
			r.Counters["inconclusive_runs"]++
			continue
		}
		if sig != "" {
			r.Verdict = fw.Violated
			r.Sig = sig
			r.Detail = det
			r.Trace = trc
			return r
		}
	}
	r.NT = append(r.NT, "api:"+p.Kind+"/"+p.Cause)
	r.Sample = map[string]interface{}{"mode": "api", "kind": p.Kind, "cause": p.Cause}
	return r
}

func notIn(err error, others ...error) string {
	for _, o := range others {
		if errors.Is(err, o) {
			return fmt.Sprintf("errors.Is reports %v which is not the cause", o)
		}
	}
	return ""
}

func c19Interrupt(kind, cause string, rep int) (sig, detail string, trace []string) {
	tr := memnet.NewTrace()
	failNext := false
	var werr error
	step := 0 // which request packet to fail at
	peer := &scen.Script{Tr: tr, AutoConnack: true}
	peer.OnPkt = func(cn *memnet.Conn, p *mqttref.Packet, raw []byte) bool {
		if p == nil {
			return false
		}
		if cn.ID == 1 {
			if kind == "pub2comp" && p.Type == mqttref.PUBLISH {
				cn.SendLocked(mqttref.EncAck(mqttref.PUBREC, p.ID), "")
				return false
			}
			want := map[string]int{"pub1": mqttref.PUBLISH, "pub2": mqttref.PUBLISH, "pub2comp": mqttref.PUBREL, "sub": mqttref.SUBSCRIBE, "unsub": mqttref.UNSUBSCRIBE}[kind]
			if p.Type == want && failNext {
				step++
				return true // the Write carrying the request fails
			}
			return false
		}
		// fresh client: behave like a broker
		if a := scen.AckFor(p); a != nil {
			cn.SendLocked(a, "")
		}
		return false
	}
	cli, conn := scen.NewBase(tr, peer)
	switch cause {
	case "write-closedpipe":
		werr, failNext = io.ErrClosedPipe, true
	case "write-custom":
		werr, failNext = errCustomWrite, true
	case "write-wrapeof":
		werr, failNext = fmt.Errorf("tls: broken record: %w", io.EOF), true
	}
	conn.WriteErr = werr
	if err := scen.ConnectBase(cli); err != nil {
		return "inconclusive", err.Error(), nil
	}
	fail := func(s, f string, a ...interface{}) (string, string, []string) {
		cli.Close()
		return s + ":" + kind + "/" + cause, fmt.Sprintf("%s/%s: ", kind, cause) + fmt.Sprintf(f, a...), tr.Dump(50)
	}
	var ctx context.Context
	var cancel context.CancelFunc
	switch cause {
	case "deadline":
		ctx, cancel = context.WithTimeout(context.Background(), 3*time.Millisecond)
	default:
		ctx, cancel = context.WithCancel(context.Background())
	}
	defer cancel()
	msg := &mqtt.Message{Topic: "c19/t", Payload: []byte(fmt.Sprintf("pl%d", rep)), Retain: rep%2 == 0}
	subs := []mqtt.Subscription{{Topic: "c19/a", QoS: mqtt.QoS1}, {Topic: "c19/b/#", QoS: mqtt.QoS2}}
	done := make(chan error, 1)
	go func() {
		var err error
		switch kind {
		case "pub1":
			msg.QoS = mqtt.QoS1
			err = cli.Publish(ctx, msg)
		case "pub2", "pub2comp":
			msg.QoS = mqtt.QoS2
			err = cli.Publish(ctx, msg)
		case "sub":
			_, err = cli.Subscribe(ctx, subs...)
		case "unsub":
			err = cli.Unsubscribe(ctx, "c19/a", "c19/b/#")
		}
		done <- err
	}()
	want := map[string]int{"pub1": mqttref.PUBLISH, "pub2": mqttref.PUBLISH, "pub2comp": mqttref.PUBREL, "sub": mqttref.SUBSCRIBE, "unsub": mqttref.UNSUBSCRIBE}[kind]
	if !failNext {
		if _, ok := peer.WaitIn(scen.Watchdog, 1, func(q *mqttref.Packet) bool { return q.Type == want }); !ok {
			return "inconclusive", "request not seen", nil
		}
		switch cause {
		case "peerclose":
			conn.PeerClose("cause")
		case "cancel":
			cancel()
		}
	}
	var err error
	select {
	case err = <-done:
	case <-time.After(scen.Watchdog):
		return "inconclusive", "call did not return (C11's concern)", nil
	}
	if err == nil {
		return fail("nil-on-interrupt", "interrupted request returned nil")
	}
	// the cause is inspectable
	others := []error{mqtt.ErrInvalidPacket, mqtt.ErrInvalidPacketLength, mqtt.ErrPayloadLenExceeded, mqtt.ErrInvalidQoS, mqtt.ErrNotConnected, mqtt.ErrInvalidSubAck, mqtt.ErrPingTimeout, mqtt.ErrClosedClient, io.ErrUnexpectedEOF}
	var wantCause error
	switch cause {
	case "write-closedpipe":
		wantCause = io.ErrClosedPipe
		others = append(others, mqtt.ErrClosedTransport, context.Canceled, context.DeadlineExceeded, io.EOF)
	case "write-custom":
		wantCause = errCustomWrite
		var ce *customErr
		if !errors.As(err, &ce) || ce != errCustomWrite {
			return fail("cause-not-inspectable", "errors.As does not find the transport's error in %v", err)
		}
		others = append(others, mqtt.ErrClosedTransport, context.Canceled, io.EOF, io.ErrClosedPipe)
	case "write-wrapeof":
		wantCause = io.EOF
		if err == io.EOF {
			return fail("cause-collapsed", "a transport error that merely wraps io.EOF was collapsed to bare io.EOF (cause text and retry handle lost)")
		}
		if !strings.Contains(err.Error(), "broken record") {
			return fail("cause-collapsed", "the transport's error text is gone: %v", err)
		}
		others = append(others, mqtt.ErrClosedTransport, context.Canceled, io.ErrClosedPipe)
	case "peerclose":
		wantCause = mqtt.ErrClosedTransport
		others = append(others, context.Canceled, context.DeadlineExceeded, io.ErrClosedPipe)
	case "cancel":
		wantCause = context.Canceled
		others = append(others, mqtt.ErrClosedTransport, context.DeadlineExceeded, io.EOF)
	case "deadline":
		wantCause = context.DeadlineExceeded
		others = append(others, mqtt.ErrClosedTransport, context.Canceled, io.EOF)
	}
	if !errors.Is(err, wantCause) {
		return fail("cause-not-inspectable", "errors.Is(%v, %v) is false", err, wantCause)
	}
	if s := notIn(err, others...); s != "" {
		return fail("false-cause", "%s (err=%v)", s, err)
	}
	// retry handle
	rh, ok := err.(mqtt.ErrorWithRetry)
	if !ok {
		return fail("no-retry-handle", "%v (%T) does not implement ErrorWithRetry", err, err)
	}
	var firstPub *mqttref.Packet
	for _, e := range tr.Snapshot() {
		if e.Kind == memnet.KWrite && e.Pkt != nil && e.Pkt.Type == mqttref.PUBLISH && firstPub == nil {
			firstPub = e.Pkt
		}
	}
	cli2, conn2 := scen.NewBase(tr, peer)
	if err := scen.ConnectBase(cli2); err != nil {
		return "inconclusive", err.Error(), nil
	}
	defer cli2.Close()
	rctx, rcancel := context.WithTimeout(context.Background(), scen.Watchdog)
	defer rcancel()
	if rerr := rh.Retry(rctx, cli2); rerr != nil {
		if scen.IsDeadline(rerr) {
			// nothing reached the client it was given?
			n := 0
			for _, e := range tr.Snapshot() {
				if e.Kind == memnet.KWrite && e.Conn == conn2.ID && e.Pkt != nil && e.Pkt.Type != mqttref.CONNECT {
					n++
				}
			}
			if n == 0 {
				return fail("retry-not-on-given-client", "Retry(ctx, fresh client) wrote nothing on the client it was given and ended with %v", rerr)
			}
		}
		return fail("retry-failed", "Retry on a fresh, acknowledging client returned %v", rerr)
	}
	// what Retry produced on connection 2 must be the same request
	var got []*mqttref.Packet
	for _, e := range tr.Snapshot() {
		if e.Kind == memnet.KWrite && e.Conn == conn2.ID && e.Pkt != nil && e.Pkt.Type != mqttref.CONNECT {
			if e.Mal != "" {
				return fail("retry-malformed", "Retry wrote %v", e)
			}
			got = append(got, e.Pkt)
		}
	}
	desc := func() string {
		var s []string
		for _, g := range got {
			s = append(s, g.String())
		}
		return strings.Join(s, ", ")
	}
	switch kind {
	case "pub1", "pub2":
		if len(got) == 0 || got[0].Type != mqttref.PUBLISH {
			return fail("retry-different-request", "Retry wrote %s, want the PUBLISH again", desc())
		}
		g := got[0]
		if g.Topic != msg.Topic || string(g.Payload) != string(msg.Payload) || g.QoS != byte(msg.QoS) || g.Retain != msg.Retain || !g.Dup || (firstPub != nil && g.ID != firstPub.ID) || g.ID == 0 {
			return fail("retry-different-request", "first transmission %v, Retry wrote %v (want same id/content, DUP=1)", firstPub, g)
		}
		if kind == "pub2" && (len(got) != 2 || got[1].Type != mqttref.PUBREL || got[1].ID != g.ID) {
			return fail("retry-different-request", "QoS 2 retry wrote %s, want PUBLISH(dup) then PUBREL with the same id", desc())
		}
		if kind == "pub1" && len(got) != 1 {
			return fail("retry-different-request", "QoS 1 retry wrote %s", desc())
		}
	case "pub2comp":
		if len(got) != 1 || got[0].Type != mqttref.PUBREL || firstPub == nil || got[0].ID != firstPub.ID {
			return fail("retry-different-request", "after PUBREC the retry handle wrote %s on the fresh client, want only PUBREL(%v)", desc(), firstPub)
		}
	case "sub":
		if len(got) != 1 || got[0].Type != mqttref.SUBSCRIBE || len(got[0].Subs) != 2 || got[0].Subs[0] != (mqttref.Sub{Filter: "c19/a", QoS: 1}) || got[0].Subs[1] != (mqttref.Sub{Filter: "c19/b/#", QoS: 2}) {
			return fail("retry-different-request", "Retry wrote %s, want SUBSCRIBE [c19/a@1 c19/b/#@2]", desc())
		}
	case "unsub":
		if len(got) != 1 || got[0].Type != mqttref.UNSUBSCRIBE || strings.Join(got[0].Filters, ",") != "c19/a,c19/b/#" {
			return fail("retry-different-request", "Retry wrote %s, want UNSUBSCRIBE [c19/a c19/b/#]", desc())
		}
	}
	cli.Close()
	return "", "", nil
}

// c19Misc: sentinels returned by the API for non-interrupt failures.
func c19Misc() (string, string) {
	tr := memnet.NewTrace()
	peer := &scen.Script{Tr: tr, AutoConnack: true, AutoAck: true}
	cli, conn := scen.NewBase(tr, peer)
	ctx, cancel := context.WithTimeout(context.Background(), scen.Watchdog)
	defer cancel()
	chk := func(what string, err, want error, not ...error) (string, string) {
		if !errors.Is(err, want) {
			return "cause-not-inspectable:" + what, fmt.Sprintf("%s: errors.Is(%v, %v) is false", what, err, want)
		}
		if s := notIn(err, not...); s != "" {
			return "false-cause:" + what, fmt.Sprintf("%s: %s (err=%v)", what, s, err)
		}
		return "", ""
	}
	// before Connect
	if s, d := chk("publish-before-connect", cli.Publish(ctx, &mqtt.Message{Topic: "x", QoS: mqtt.QoS1}), mqtt.ErrNotConnected, mqtt.ErrClosedTransport, mqtt.ErrInvalidQoS); s != "" {
		return s, d
	}
	_, e := cli.Subscribe(ctx, mqtt.Subscription{Topic: "x"})
	if s, d := chk("subscribe-before-connect", e, mqtt.ErrNotConnected, mqtt.ErrInvalidSubAck); s != "" {
		return s, d
	}
	if s, d := chk("ping-before-connect", cli.Ping(ctx), mqtt.ErrNotConnected, mqtt.ErrPingTimeout); s != "" {
		return s, d
	}
	if err := scen.ConnectBase(cli); err != nil {
		return "inconclusive", err.Error()
	}
	cli.MaxPayloadLen = 4
	if s, d := chk("invalid-qos", cli.Publish(ctx, &mqtt.Message{Topic: "x", QoS: 3}), mqtt.ErrInvalidQoS, mqtt.ErrPayloadLenExceeded, mqtt.ErrNotConnected); s != "" {
		return s, d
	}
	if s, d := chk("payload-exceeded", cli.Publish(ctx, &mqtt.Message{Topic: "x", Payload: make([]byte, 10)}), mqtt.ErrPayloadLenExceeded, mqtt.ErrInvalidQoS); s != "" {
		return s, d
	}
	rc := &mqtt.RetryClient{}
	rc.SetClient(ctx, cli)
	if s, d := chk("retryclient-validation", rc.Publish(ctx, &mqtt.Message{Topic: "x", QoS: 5}), mqtt.ErrInvalidQoS, mqtt.ErrPayloadLenExceeded); s != "" {
		return s, d
	}
	// wrong SUBACK count
	peer.AutoAck = false
	peer.OnPkt = func(cn *memnet.Conn, p *mqttref.Packet, raw []byte) bool {
		if p != nil && p.Type == mqttref.SUBSCRIBE {
			cn.SendLocked(mqttref.EncSubAck(p.ID, []byte{0, 1, 2}), "")
		}
		return false
	}
	_, e = cli.Subscribe(ctx, mqtt.Subscription{Topic: "x"})
	if s, d := chk("suback-count", e, mqtt.ErrInvalidSubAck, mqtt.ErrInvalidPacket, mqtt.ErrNotConnected); s != "" {
		return s, d
	}
	select {
	case <-cli.Done():
	case <-time.After(scen.Watchdog):
		return "inconclusive", "Done not closed"
	}
	// protocol errors surface through Err()
	for _, tc := range []struct {
		raw  []byte
		want error
	}{
		{[]byte{0x36, 0x03, 0x00, 0x01, 'x'}, mqtt.ErrInvalidPacket},
		{[]byte{0x40, 0x01, 0x00}, mqtt.ErrInvalidPacketLength},
		{[]byte{0xF0, 0x00}, mqtt.ErrInvalidPacket},
		{[]byte{0x30, 0x03, 0x00, 0x05, 'x'}, mqtt.ErrInvalidPacketLength},
		{[]byte{0x90, 0x01, 0x00}, mqtt.ErrInvalidPacketLength},
		{[]byte{0x30, 0x84, 0x80, 0x80, 0x80, 0x01}, mqtt.ErrInvalidPacketLength},
	} {
		tr2 := memnet.NewTrace()
		p2 := &scen.Script{Tr: tr2, AutoConnack: true}
		c2, cn2 := scen.NewBase(tr2, p2)
		if err := scen.ConnectBase(c2); err != nil {
			return "inconclusive", err.Error()
		}
		cn2.Send(tc.raw, "malformed")
		select {
		case <-c2.Done():
		case <-time.After(scen.Watchdog):
			return "inconclusive", "Done not closed after malformed packet"
		}
		if s, d := chk(fmt.Sprintf("malformed-%x", tc.raw), c2.Err(), tc.want, mqtt.ErrNotConnected, mqtt.ErrClosedTransport, io.EOF); s != "" {
			return s, d
		}
	}
	// peer close: io.EOF passed through unwrapped
	tr3 := memnet.NewTrace()
	p3 := &scen.Script{Tr: tr3, AutoConnack: true}
	c3, cn3 := scen.NewBase(tr3, p3)
	if err := scen.ConnectBase(c3); err != nil {
		return "inconclusive", err.Error()
	}
	cn3.PeerClose("eof")
	select {
	case <-c3.Done():
	case <-time.After(scen.Watchdog):
		return "inconclusive", "Done not closed after peer close"
	}
	if c3.Err() != io.EOF {
		return "eof-wrapped", fmt.Sprintf("after a clean peer close Err() = %#v, want io.EOF itself", c3.Err())
	}
	_ = conn
	return "", ""
}

// c19Chain: a request is interrupted again and again; every returned error must carry a retry handle,
// and the handles, invoked on fresh clients one after the other, must continue the same exchange:
// PUBLISH with the same id/content and DUP=1 until PUBREC was received, only PUBREL(id) afterwards,
// the same SUBSCRIBE / UNSUBSCRIBE for the other kinds, until a client lets it complete.
func c19Chain(rng *rand.Rand, rep int) (sig, detail string, trace []string) {
	kind := []string{"pub1", "pub2", "pub2", "sub", "unsub"}[rng.Intn(5)]
	hops := 1 + rng.Intn(5)
	// plan[i] for attempt i (0-based): "cut" (close after the request packet, no answer),
	// "rec-cut" (QoS 2 first stage: send PUBREC, close after PUBREL), "ok" (complete)
	plan := make([]string, hops+1)
	for i := 0; i < hops; i++ {
		plan[i] = "cut"
		if kind == "pub2" && rng.Intn(2) == 0 {
			plan[i] = "rec-cut"
		}
	}
	plan[hops] = "ok"
	tr := memnet.NewTrace()
	stage := map[int]string{}
	peer := &scen.Script{Tr: tr, AutoConnack: true}
	peer.OnPkt = func(cn *memnet.Conn, p *mqttref.Packet, raw []byte) bool {
		if p == nil || p.Type == mqttref.CONNECT {
			return false
		}
		pl := plan[cn.ID-1]
		switch {
		case pl == "ok":
			if a := scen.AckFor(p); a != nil {
				cn.SendLocked(a, "")
			}
		case pl == "cut":
			cn.PeerCloseLocked("chain: cut after request")
		case pl == "rec-cut":
			if p.Type == mqttref.PUBLISH {
				cn.SendLocked(mqttref.EncAck(mqttref.PUBREC, p.ID), "")
				stage[cn.ID] = "rec-sent"
			} else {
				cn.PeerCloseLocked("chain: cut after PUBREL")
			}
		}
		return false
	}
	fail := func(s, f string, a ...interface{}) (string, string, []string) {
		return s + ":chain-" + kind, fmt.Sprintf("chain %s plan %v: ", kind, plan) + fmt.Sprintf(f, a...), tr.Dump(80)
	}
	msg := &mqtt.Message{Topic: "c19/chain", Payload: []byte(fmt.Sprintf("c%d", rep)), Retain: rng.Intn(2) == 0}
	subs := []mqtt.Subscription{{Topic: "c19/x", QoS: mqtt.QoS(rng.Intn(3))}, {Topic: "c19/y/+", QoS: mqtt.QoS(rng.Intn(3))}}
	wantSubs := []mqttref.Sub{{Filter: "c19/x", QoS: byte(subs[0].QoS)}, {Filter: "c19/y/+", QoS: byte(subs[1].QoS)}}
	var handle mqtt.ErrorWithRetry
	var firstID uint16
	recSeen := false
	for i := 0; i <= hops; i++ {
		cli, conn := scen.NewBase(tr, peer)
		if err := scen.ConnectBase(cli); err != nil {
			return "inconclusive", err.Error(), nil
		}
		ctx, cancel := context.WithTimeout(context.Background(), scen.Watchdog)
		var err error
		if i == 0 {
			switch kind {
			case "pub1":
				msg.QoS = mqtt.QoS1
				err = cli.Publish(ctx, msg)
			case "pub2":
				msg.QoS = mqtt.QoS2
				err = cli.Publish(ctx, msg)
			case "sub":
				_, err = cli.Subscribe(ctx, subs...)
			case "unsub":
				err = cli.Unsubscribe(ctx, "c19/x", "c19/y/+")
			}
		} else {
			err = handle.Retry(ctx, cli)
		}
		cancel()
		// what this attempt wrote
		var got []*mqttref.Packet
		for _, e := range tr.Snapshot() {
			if e.Kind == memnet.KWrite && e.Conn == conn.ID && e.Pkt != nil && e.Pkt.Type != mqttref.CONNECT {
				if e.Mal != "" {
					return fail("retry-malformed", "attempt %d wrote %v", i, e)
				}
				got = append(got, e.Pkt)
			}
		}
		desc := func() string {
			var s []string
			for _, g := range got {
				s = append(s, g.String())
			}
			return strings.Join(s, ", ")
		}
		switch kind {
		case "pub1", "pub2":
			if !recSeen {
				if len(got) == 0 || got[0].Type != mqttref.PUBLISH {
					return fail("retry-different-request", "attempt %d (PUBREC not yet received) wrote %s, want PUBLISH", i, desc())
				}
				g := got[0]
				if i == 0 {
					firstID = g.ID
				}
				if g.ID != firstID || g.ID == 0 || g.Topic != msg.Topic || string(g.Payload) != string(msg.Payload) || g.QoS != byte(msg.QoS) || g.Retain != msg.Retain || g.Dup != (i > 0) {
					return fail("retry-different-request", "attempt %d wrote %v, first transmission had id %d (want same id/content, DUP=%v)", i, g, firstID, i > 0)
				}
				for _, x := range got[1:] {
					if x.Type != mqttref.PUBREL || x.ID != firstID {
						return fail("retry-different-request", "attempt %d wrote %s", i, desc())
					}
				}
			} else {
				if len(got) != 1 || got[0].Type != mqttref.PUBREL || got[0].ID != firstID {
					return fail("publish-after-pubrec", "attempt %d: PUBREC had been received on an earlier client, the retry handle wrote %s, want only PUBREL(%d)", i, desc(), firstID)
				}
			}
			if stage[conn.ID] == "rec-sent" {
				recSeen = true
			}
		case "sub":
			if len(got) != 1 || got[0].Type != mqttref.SUBSCRIBE || len(got[0].Subs) != 2 || got[0].Subs[0] != wantSubs[0] || got[0].Subs[1] != wantSubs[1] {
				return fail("retry-different-request", "attempt %d wrote %s, want SUBSCRIBE %v", i, desc(), wantSubs)
			}
		case "unsub":
			if len(got) != 1 || got[0].Type != mqttref.UNSUBSCRIBE || strings.Join(got[0].Filters, ",") != "c19/x,c19/y/+" {
				return fail("retry-different-request", "attempt %d wrote %s", i, desc())
			}
		}
		if plan[i] == "ok" {
			cli.Close()
			if err != nil {
				return fail("retry-failed", "attempt %d on an acknowledging client returned %v", i, err)
			}
			return "", "", nil
		}
		if err == nil {
			cli.Close()
			return fail("nil-on-interrupt", "attempt %d was interrupted (%s) but returned nil", i, plan[i])
		}
		if scen.IsDeadline(err) {
			cli.Close()
			return "inconclusive", "attempt hit the watchdog", nil
		}
		if !errors.Is(err, mqtt.ErrClosedTransport) && !errors.Is(err, io.EOF) {
			cli.Close()
			return fail("cause-not-inspectable", "attempt %d interrupted by peer close returned %v", i, err)
		}
		h, ok := err.(mqtt.ErrorWithRetry)
		if !ok {
			cli.Close()
			return fail("no-retry-handle", "attempt %d returned %v (%T) without a retry handle", i, err, err)
		}
		handle = h
		cli.Close()
	}
	return "", "", nil
}

// c19Timeouts: with RetryClient.ResponseTimeout set, acknowledgements are dropped on first transmissions and
// on retransmissions; every error reported through OnError that stems from an expired timeout must be
// identifiable as RequestTimeoutError (errors.As).
func c19Timeouts(wname string, counters map[string]int) (sig, detail string, trace []string) {
	w := workloads[wname]
	n := w.reqPackets()
	for k := 2; k <= n; k++ {
		for d := 0; d <= 3; d++ {
			f := []scen.Fault{{At: k, Kind: scen.DropResp}}
			if d > 0 {
				f = append(f, scen.Fault{At: k + d, Kind: scen.DropResp})
			}
			sc := scen.Scenario{Client: "reconnect", Cfg: scen.BrokerCfg{Method: "A", Session: "keep"}, Pre: w.Pre, Steps: w.Steps, Faults: f, RespMs: 8, TimeoutMs: 40, WaitBaseMs: 1, WaitMaxMs: 2}
			run := scen.Exec(&sc)
			if run.Inconcl != "" || run.Stuck {
				counters["timeout_runs_skipped"]++ // C18's business
				continue
			}
			for _, e := range run.Tr.Snapshot() {
				if e.Kind != memnet.KOnError {
					continue
				}
				if strings.Contains(e.Err, "deadline exceeded") {
					counters["timeout_errors_checked"]++
					if e.S != "RequestTimeoutError" {
						return "timeout-not-identifiable", fmt.Sprintf("workload %s faults %v: OnError reported %q, which stems from the expired ResponseTimeout but errors.As(*RequestTimeoutError) fails", wname, f, e.Err), run.Tr.Dump(80)
					}
				}
			}
		}
	}
	return "", "", nil
}

// c19EndCause: the error that ended a connection stays inspectable through Err() and the Closed callback, also when
// the transport's Close reports an error of its own.
func c19EndCause(cause string, i int) (sig, detail string, trace []string) {
	tr := memnet.NewTrace()
	peer := &scen.Script{Tr: tr, AutoConnack: true}
	var cbErr error
	var cbSeen bool
	var mu sync.Mutex
	conn := tr.NewConn(peer)
	cli := &mqtt.BaseClient{Transport: conn}
	cli.ConnState = func(s mqtt.ConnState, err error) {
		if s == mqtt.StateClosed {
			mu.Lock()
			cbErr, cbSeen = err, true
			mu.Unlock()
		}
	}
	closeErr := errors.New("transport: close notify could not be sent")
	if i%2 == 0 {
		conn.CloseErr = closeErr
	}
	conn.Chunk = []int{0, 1, 3}[i%3]
	if err := scen.ConnectBase(cli); err != nil {
		return "inconclusive", err.Error(), nil
	}
	defer cli.Close()
	var want error
	switch cause {
	case "malformed":
		want = mqtt.ErrInvalidPacket
		conn.Send([]byte{0x36, 0x03, 0x00, 0x01, 'x'}, "malformed")
	case "overlong-length":
		want = mqtt.ErrInvalidPacketLength
		conn.Send([]byte{0x30, 0x80, 0x80, 0x80, 0x80, 0x01}, "over-long length field")
	case "eof":
		want = io.EOF
		conn.PeerClose("peer closes")
	}
	select {
	case <-cli.Done():
	case <-time.After(scen.Watchdog):
		return "inconclusive", "Done not closed", tr.Dump(30)
	}
	for k := 0; k < 2000; k++ {
		mu.Lock()
		seen := cbSeen
		mu.Unlock()
		if seen {
			break
		}
		time.Sleep(100 * time.Microsecond)
	}
	mu.Lock()
	defer mu.Unlock()
	if !errors.Is(cli.Err(), want) {
		return "cause-not-inspectable:connection-end", fmt.Sprintf("connection ended by %s (transport Close error: %v): errors.Is(Err(), %v) is false; Err() = %v", cause, conn.CloseErr, want, cli.Err()), tr.Dump(30)
	}
	if cbSeen && !errors.Is(cbErr, want) {
		return "cause-not-inspectable:connection-end", fmt.Sprintf("connection ended by %s (transport Close error: %v): the Closed callback got %v, errors.Is(.., %v) is false", cause, conn.CloseErr, cbErr, want), tr.Dump(30)
	}
	return "", "", nil
}
