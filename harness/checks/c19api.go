package checks

import "verif/fw"

func c19APIcases(tier string) []fw.Case { return nil }

func c19APIRun(c fw.Case, env *fw.Env) fw.Result { return fw.Result{} }
