package checks

import (
	"context"
	"encoding/hex"
	"fmt"
	"math/rand"
	"time"

	mqtt "github.com/at-wat/mqtt-go"
	"verif/fw"
	"verif/memnet"
	"verif/mqttref"
	"verif/scen"
)

// A hostile stream: a well-formed prefix, one hostile blob, a canary.
type c06Stream struct {
	Prefix    int    `json:"prefix"`    // number of well-formed PUBLISH packets before (alternating q0/q1)
	Blob      string `json:"blob"`      // hex of the hostile bytes
	Class     string `json:"class"`     // generator's label
	Listed    bool   `json:"listed"`    // class is in the property's list: the link must end with an error
	Truncate  bool   `json:"truncate"`  // the blob is an incomplete packet followed by the peer closing
	LenBytes  int    `json:"len_bytes"` // for over-long length fields: only this many bytes of the blob may be consumed
	Chunk     int    `json:"chunk"`
	PingFirst bool   `json:"ping_first,omitempty"` // a Ping is completed first (the client then has a place to put PINGRESPs)
}

type c06Params struct {
	Mode string     `json:"mode"` // structural | random | parsers | one
	Part int        `json:"part,omitempty"`
	Of   int        `json:"of,omitempty"`
	N    int        `json:"n,omitempty"`
	One  *c06Stream `json:"one,omitempty"`
}

func c06Gen(tier string, seed int64) []fw.Case {
	var cs []fw.Case
	parts, nrand := 16, 400
	if tier == "thorough" {
		parts, nrand = 64, 60000
	}
	for i := 0; i < parts; i++ {
		cs = append(cs, fw.Mk(fmt.Sprintf("structural-%d/%d", i, parts), c06Params{Mode: "structural", Part: i, Of: parts}))
	}
	for i := 0; i < 16; i++ {
		cs = append(cs, fw.Mk(fmt.Sprintf("random-%d", i), c06Params{Mode: "random", N: nrand}))
	}
	for i := 0; i < 4; i++ {
		cs = append(cs, fw.Mk(fmt.Sprintf("parsers-%d", i), c06Params{Mode: "parsers", N: nrand * 50}))
	}
	for i := 0; i < 8; i++ {
		cs = append(cs, fw.Mk(fmt.Sprintf("pending-%d", i), c06Params{Mode: "pending", N: nrand / 2}))
	}
	for i := 0; i < 4; i++ {
		cs = append(cs, fw.Mk(fmt.Sprintf("suback-codes-%d", i), c06Params{Mode: "subackcodes", N: nrand / 20, Part: i}))
	}
	for i := 0; i < 8; i++ {
		cs = append(cs, fw.Mk(fmt.Sprintf("preconnack-%d/8", i), c06Params{Mode: "preconnack", Part: i, Of: 8, N: nrand / 4}))
	}
	return cs
}

// validBody returns a minimal well-formed body for a broker->client packet type.
func validBody(t int) []byte {
	switch t {
	case mqttref.CONNACK:
		return []byte{0, 0}
	case mqttref.PUBLISH:
		return []byte{0, 1, 'x', 'p'}
	case mqttref.PUBACK, mqttref.PUBREC, mqttref.PUBREL, mqttref.PUBCOMP, mqttref.UNSUBACK:
		return []byte{0, 9}
	case mqttref.SUBACK:
		return []byte{0, 9, 0}
	}
	return nil
}

func validFlags(t int) byte {
	if t == mqttref.PUBREL {
		return 2
	}
	return 0
}

// structuralStreams enumerates the structural generator g1.
func structuralStreams() []c06Stream {
	var out []c06Stream
	add := func(blob []byte, class string, listed bool, s c06Stream) {
		s.Blob = hex.EncodeToString(blob)
		s.Class = class
		s.Listed = listed
		out = append(out, s)
	}
	// every packet type x flag nibble x body length 0..5 / valid / valid+1
	for t := 0; t < 16; t++ {
		vb := validBody(t)
		lens := []int{0, 1, 2, 3, 4, 5}
		for fl := 0; fl < 16; fl++ {
			for _, bl := range lens {
				body := make([]byte, bl)
				copy(body, vb)
				if t == mqttref.PUBLISH && bl >= 2 {
					// topic length says 1; make it consistent where the body allows
					body[0], body[1] = 0, 1
					if bl >= 3 {
						body[2] = 'x'
					}
				}
				raw := mqttref.EncRaw(byte(t<<4|fl), body)
				_, err := mqttref.Decode(raw)
				class, listed := classify(t, err)
				add(raw, fmt.Sprintf("type%d/flags%x/body%d:%s", t, fl, bl, class), listed, c06Stream{})
			}
		}
	}
	// length field forms on a PUBLISH q0 header
	pub := []byte{0, 1, 'x', 'p'}
	add(append([]byte{0x30, 0x84, 0x00}, pub...), "nonminimal-length-2", false, c06Stream{})
	add(append([]byte{0x30, 0x84, 0x80, 0x00}, pub...), "nonminimal-length-3", false, c06Stream{})
	add(append([]byte{0x30, 0x84, 0x80, 0x80, 0x00}, pub...), "nonminimal-length-4", false, c06Stream{})
	for n := 5; n <= 12; n++ {
		b := []byte{0x30}
		for i := 0; i < n-1; i++ {
			b = append(b, 0x80)
		}
		b = append(b, 0x00)
		add(append(b, pub...), fmt.Sprintf("length-field-%d-bytes", n), true, c06Stream{LenBytes: 4})
		b2 := []byte{0x30}
		for i := 0; i < n-1; i++ {
			b2 = append(b2, 0xFF)
		}
		b2 = append(b2, 0x7F)
		add(b2, fmt.Sprintf("length-field-%d-bytes-max", n), true, c06Stream{LenBytes: 4})
	}
	endless := []byte{0x30}
	for i := 0; i < 300; i++ {
		endless = append(endless, 0xFF)
	}
	add(endless, "length-field-endless", true, c06Stream{LenBytes: 4})
	for _, first := range []byte{0x20, 0x40, 0x90, 0xD0, 0xF0} {
		e := []byte{first}
		for i := 0; i < 40; i++ {
			e = append(e, 0x80|byte(i))
		}
		add(e, fmt.Sprintf("length-field-endless-type%x", first>>4), true, c06Stream{LenBytes: 4})
	}
	// well-formed oddities the parsers accept: they must not bring the handler chain down
	add([]byte{0x30, 0x03, 0x00, 0x00, 'p'}, "publish-zero-length-topic-q0", false, c06Stream{})
	add([]byte{0x32, 0x05, 0x00, 0x00, 0x00, 0x09, 'p'}, "publish-zero-length-topic-q1", false, c06Stream{})
	add([]byte{0x30, 0x02, 0x00, 0x00}, "publish-zero-length-topic-empty-payload", false, c06Stream{})
	// surplus PINGRESPs (nobody is pinging any more), then a malformed packet: it must still end the link
	for n := 1; n <= 4; n++ {
		var b []byte
		for i := 0; i < n; i++ {
			b = append(b, 0xD0, 0x00)
		}
		add(append(b, 0xF0, 0x00), fmt.Sprintf("surplus-pingresp-x%d-then-reserved-type", n), true, c06Stream{PingFirst: true})
		add(append(append([]byte{}, b...), 0x30, 0x03, 0x00, 0x01), fmt.Sprintf("surplus-pingresp-x%d-then-short-publish", n), false, c06Stream{PingFirst: n%2 == 0})
	}
	// truncation at every byte offset of well-formed packets, then the peer closes
	wf := [][]byte{
		mqttref.EncPublish("tr/x", []byte("payload"), 1, false, false, 7),
		mqttref.EncPublish("tr/y", make([]byte, 200), 0, false, true, 0),
		mqttref.EncAck(mqttref.PUBACK, 3), mqttref.EncSubAck(5, []byte{0, 1, 2}), mqttref.EncPingResp(), mqttref.EncConnAck(false, 0),
	}
	for wi, w := range wf {
		for cut := 1; cut < len(w); cut++ {
			if len(w) > 40 && cut > 12 && cut < len(w)-3 && cut%17 != 0 {
				continue
			}
			add(w[:cut], fmt.Sprintf("truncated-%d-at-%d", wi, cut), true, c06Stream{Truncate: true})
		}
	}
	// PUBLISH specials
	add(mqttref.EncRaw(0x30, []byte{0, 9, 'x'}), "publish-topic-length-beyond-body", true, c06Stream{})
	add(mqttref.EncRaw(0x30, []byte{0xFF, 0xFF, 'x', 'y'}), "publish-topic-length-65535", true, c06Stream{})
	add(mqttref.EncRaw(0x36, []byte{0, 1, 'x', 0, 1}), "publish-qos3", true, c06Stream{})
	add(mqttref.EncRaw(0x37, []byte{0, 1, 'x', 0, 1}), "publish-qos3-retain", true, c06Stream{})
	add(mqttref.EncRaw(0x3E, []byte{0, 1, 'x', 0, 1}), "publish-qos3-dup", true, c06Stream{})
	add(mqttref.EncRaw(0x32, []byte{0, 1, 'x'}), "publish-q1-id-missing", true, c06Stream{})
	add(mqttref.EncRaw(0x32, []byte{0, 1, 'x', 5}), "publish-q1-id-half", true, c06Stream{})
	add(mqttref.EncRaw(0x34, []byte{0, 1, 'x'}), "publish-q2-id-missing", true, c06Stream{})
	add(mqttref.EncRaw(0x30, []byte{0, 3, 'a', 0, 'b', 'p'}), "publish-nul-in-topic", true, c06Stream{})
	add(mqttref.EncRaw(0x32, []byte{0, 1, 0, 0, 1, 'p'}), "publish-nul-topic-q1", true, c06Stream{})
	add(mqttref.EncRaw(0x30, []byte{0, 2, 0xC0, 0x80, 'p'}), "publish-overlong-nul-utf8", false, c06Stream{})
	add(mqttref.EncRaw(0x30, []byte{0, 2, 0xFF, 0xFE, 'p'}), "publish-invalid-utf8", false, c06Stream{})
	add(mqttref.EncRaw(0x30, []byte{0, 3, 0xED, 0xA0, 0x80, 'p'}), "publish-surrogate", false, c06Stream{})
	add(mqttref.EncRaw(0x38, []byte{0, 1, 'x', 'p'}), "publish-dup-on-q0", false, c06Stream{})
	add(mqttref.EncRaw(0x32, []byte{0, 1, 'x', 0, 0, 'p'}), "publish-q1-id-zero", false, c06Stream{})
	add(mqttref.EncRaw(0x30, []byte{0, 0, 'p'}), "publish-empty-topic", false, c06Stream{})
	// SUBACK / acks with short bodies (the short SUBACK is the input nobody listed)
	add([]byte{0x90, 0x00}, "suback-body-0", true, c06Stream{})
	add([]byte{0x90, 0x01, 0x00}, "suback-body-1", true, c06Stream{})
	add([]byte{0x90, 0x02, 0x00, 0x01}, "suback-no-codes", false, c06Stream{})
	add(mqttref.EncRaw(0x90, []byte{0, 1, 0x80, 3, 0xFF}), "suback-odd-codes", false, c06Stream{})
	add(mqttref.EncRaw(0x20, []byte{0, 0, 0}), "connack-body-3", false, c06Stream{})
	add(mqttref.EncRaw(0x20, []byte{0}), "connack-body-1", true, c06Stream{})
	add(mqttref.EncRaw(0x40, []byte{0, 1, 2, 3}), "puback-long-body", false, c06Stream{})
	// vary prefix and chunk
	var all []c06Stream
	for i, s := range out {
		s.Prefix = i % 4
		s.Chunk = []int{0, 1, 2, 7}[(i/4)%4]
		all = append(all, s)
	}
	return all
}

// classify maps a strict-decoder verdict to (class, listed-in-the-property).
func classify(t int, err error) (string, bool) {
	if err == nil {
		if t == mqttref.CONNECT || t == mqttref.SUBSCRIBE || t == mqttref.UNSUBSCRIBE || t == mqttref.PINGREQ || t == mqttref.DISCONNECT {
			return "client-only-type", false
		}
		return "wellformed", false
	}
	m, ok := err.(*mqttref.Malformed)
	if !ok {
		return "short", false
	}
	switch m.Class {
	case "length-field", "flags", "qos3", "type", "short-body", "nul-in-topic":
		if t == mqttref.CONNECT || t == mqttref.SUBSCRIBE || t == mqttref.UNSUBSCRIBE || t == mqttref.PINGREQ || t == mqttref.DISCONNECT {
			return "client-only-type/" + m.Class, false
		}
		return m.Class, true
	}
	return "other/" + m.Class, false
}

// c06RunStream feeds one hostile stream and applies the oracle.
func c06RunStream(s c06Stream) (sig, detail string, trace []string, obs string) {
	blob, _ := hex.DecodeString(s.Blob)
	tr := memnet.NewTrace()
	peer := &scen.Script{Tr: tr, AutoConnack: true}
	cli, conn := scen.NewBase(tr, peer)
	conn.Chunk = s.Chunk
	conn.LateWriteOK = s.Truncate // acknowledgements of the prefix written after the peer closed are discarded, not failed
	var handed []string
	rec := mqtt.HandlerFunc(func(m *mqtt.Message) {
		tr.Add(memnet.Event{Kind: memnet.KHEnter, Conn: conn.ID, S: m.Topic})
		handed = append(handed, m.Topic)
	})
	if len(blob)%2 == 0 {
		// half of the streams go through a ServeMux: whatever topic the parser lets through is matched against
		// wildcard filters as well
		mux := &mqtt.ServeMux{}
		mux.Handle("#", rec)
		for _, f := range []string{"+/+/zz", "a/#", "+", "+/#"} {
			mux.Handle(f, mqtt.HandlerFunc(func(*mqtt.Message) {}))
		}
		cli.Handle(mux)
	} else {
		cli.Handle(rec)
	}
	if err := scen.ConnectBase(cli); err != nil {
		return "harness", "connect: " + err.Error(), tr.Dump(0), ""
	}
	if s.PingFirst {
		peer.AutoPing = true
		if err := scen.Barrier(cli); err != nil {
			return "harness", "ping: " + err.Error(), tr.Dump(0), ""
		}
		peer.AutoPing = false
	}
	fail := func(sg, f string, a ...interface{}) (string, string, []string, string) {
		cli.Close()
		return sg, fmt.Sprintf(f, a...) + fmt.Sprintf("\nstream: prefix=%d class=%s blob=%s chunk=%d", s.Prefix, s.Class, s.Blob, s.Chunk), tr.Dump(40), ""
	}
	tr.Mu.Lock()
	prefixLen := 0
	for i := 0; i < s.Prefix; i++ {
		var raw []byte
		if i%2 == 0 {
			raw = mqttref.EncPublish(fmt.Sprintf("pre/%d", i), []byte("p"), 0, false, false, 0)
		} else {
			raw = mqttref.EncPublish(fmt.Sprintf("pre/%d", i), nil, 1, false, false, uint16(100+i))
		}
		prefixLen += len(raw)
		conn.SendLocked(raw, "prefix")
	}
	connack := 4
	conn.SendLocked(blob, "hostile:"+s.Class)
	if s.Truncate {
		conn.PeerCloseLocked("peer closes after truncated packet")
	} else {
		conn.SendLocked(mqttref.EncPublish("canary", []byte("c"), 0, false, false, 0), "canary")
	}
	tr.Mu.Unlock()
	// logical end: the library closed the transport, or its reader is parked on the exhausted input
	settled := tr.WaitFor(scen.Watchdog, func() bool {
		return conn.LocalClosed || (conn.Parked && conn.BufferedLocked() == 0)
	})
	if !settled {
		if scen.CertifyStuck(tr, conn) {
			// input is waiting, the connection is open, and nothing moves: the reader has stopped reading
			return fail("reader-stopped-reading", "the client neither closed the connection nor went on reading: %d byte(s) of input are left unread and nothing moves", func() int { tr.Mu.Lock(); defer tr.Mu.Unlock(); return conn.BufferedLocked() }())
		}
		cli.Close()
		return "inconclusive", "neither closed nor parked within the watchdog", tr.Dump(40), ""
	}
	tr.Mu.Lock()
	closed := conn.LocalClosed
	consumed := conn.Consumed
	maxRead := conn.MaxReadLen
	online := append([]string{}, tr.Online...)
	tr.Mu.Unlock()
	if len(online) > 0 {
		return fail("oversized-allocation", "%s", online[0])
	}
	if maxRead > mqttref.MaxRemaining {
		return fail("oversized-allocation", "Read with %d-byte buffer", maxRead)
	}
	// the well-formed prefix is processed normally
	wantHanded := s.Prefix
	for i := 0; i < wantHanded; i++ {
		if i >= len(handed) || handed[i] != fmt.Sprintf("pre/%d", i) {
			return fail("prefix-not-processed", "well-formed packet %d before the hostile bytes was not handed over (handed %v)", i, handed)
		}
	}
	acked := map[uint16]bool{}
	for _, e := range tr.Snapshot() {
		if e.Kind == memnet.KWrite && e.Pkt != nil && e.Pkt.Type == mqttref.PUBACK {
			acked[e.Pkt.ID] = true
		}
	}
	for i := 1; i < s.Prefix; i += 2 {
		if !acked[uint16(100+i)] {
			return fail("prefix-not-processed", "QoS 1 prefix packet %d (id %d) was not acknowledged", i, 100+i)
		}
	}
	canary := len(handed) > s.Prefix && handed[len(handed)-1] == "canary"
	if s.Listed {
		if !closed {
			return fail("malformed-accepted", "malformed input (%s) did not end the connection: reader waits for more input, canary handed over=%v", s.Class, canary)
		}
		if canary {
			return fail("malformed-accepted", "canary after malformed input (%s) reached the handler", s.Class)
		}
		if s.LenBytes > 0 {
			limit := int64(connack + prefixLen + 1 + s.LenBytes)
			if consumed > limit {
				return fail("length-field-overread", "over-long length field: %d bytes consumed, at most %d (4 length bytes) allowed before the link ends", consumed, limit)
			}
		}
	}
	if closed {
		// Done closes, Err non-nil, Closed callback carries the same error
		select {
		case <-cli.Done():
		case <-time.After(scen.Watchdog):
			return fail("done-not-closed", "transport closed by the library but Done() is not closed")
		}
		err := cli.Err()
		if err == nil {
			return fail("err-nil-after-malformed", "connection ended by hostile input (%s) but Err() is nil", s.Class)
		}
		var closedEv *memnet.Event
		n := 0
		for _, e := range tr.Snapshot() {
			if e.Kind == memnet.KState && e.S == "Closed" {
				ee := e
				closedEv = &ee
				n++
			}
		}
		if n != 1 || closedEv.Err != err.Error() {
			return fail("closed-callback", "Closed callbacks=%d, callback error %q, Err()=%q", n, func() string {
				if closedEv != nil {
					return closedEv.Err
				}
				return ""
			}(), err)
		}
		obs = "ended:" + s.Class
	} else {
		obs = "survived:" + s.Class
	}
	cli.Close()
	return "", "", nil, obs
}

// c06PreConnack: the peer answers CONNECT with hostile bytes, then closes. Connect must return (never
// crash, never over-allocate); if it returned nil the blob must have begun with an accepting CONNACK.
func c06PreConnack(s c06Stream) (sig, detail string, trace []string) {
	blob, _ := hex.DecodeString(s.Blob)
	tr := memnet.NewTrace()
	peer := &scen.Script{Tr: tr}
	peer.OnPkt = func(cn *memnet.Conn, p *mqttref.Packet, raw []byte) bool {
		if p != nil && p.Type == mqttref.CONNECT {
			cn.SendLocked(blob, "hostile-instead-of-connack:"+s.Class)
			cn.PeerCloseLocked("peer closes after the hostile bytes")
		}
		return false
	}
	cli, conn := scen.NewBase(tr, peer)
	conn.Chunk = s.Chunk
	conn.LateWriteOK = true
	ctx, cancel := context.WithTimeout(context.Background(), scen.Watchdog)
	defer cancel()
	_, err := cli.Connect(ctx, "verif")
	defer cli.Close()
	fail := func(sg, f string, a ...interface{}) (string, string, []string) {
		return sg, fmt.Sprintf(f, a...) + fmt.Sprintf("\nblob=%s class=%s chunk=%d", s.Blob, s.Class, s.Chunk), tr.Dump(30)
	}
	if scen.IsDeadline(err) {
		if scen.CertifyStuck(tr, conn) {
			return fail("connect-blocked-on-hostile-bytes", "Connect did not return although the peer closed after its (hostile) answer")
		}
		return "inconclusive", "Connect watchdog", nil
	}
	tr.Mu.Lock()
	online := append([]string{}, tr.Online...)
	maxRead := conn.MaxReadLen
	tr.Mu.Unlock()
	if len(online) > 0 {
		return fail("oversized-allocation", "%s", online[0])
	}
	if maxRead > mqttref.MaxRemaining {
		return fail("oversized-allocation", "Read with a %d-byte buffer", maxRead)
	}
	if err == nil {
		// accepted: one of the framed packets must have been a CONNACK with return code 0 (it need not be the
		// first: packets the client has no use for before CONNACK, e.g. an UNSUBACK, are skipped by the reader;
		// leniencies such as reserved acknowledge flags are not the property's business)
		ok := false
		for rest := blob; len(rest) > 0; {
			n, ferr := mqttref.Frame(rest)
			if ferr != nil {
				break
			}
			if n >= 4 && rest[0]>>4 == mqttref.CONNACK && rest[n-1] == 0 {
				ok = true
				break
			}
			rest = rest[n:]
		}
		if !ok {
			return fail("connect-accepted-hostile-bytes", "Connect returned nil although the peer never sent a CONNACK with return code 0")
		}
	}
	return "", "", nil
}

func c06Run(c fw.Case, env *fw.Env) fw.Result {
	var p c06Params
	fw.Params(c, &p)
	r := fw.Result{Counters: map[string]int{}}
	run := func(s c06Stream) bool {
		// journal the input before feeding it (a crash must be attributable)
		fmt.Printf("## stream class=%s prefix=%d chunk=%d blob=%s\n", s.Class, s.Prefix, s.Chunk, clip(s.Blob, 200))
		sig, det, trc, obs := c06RunStream(s)
		r.Evals++
		if sig == "inconclusive" || sig == "harness" {
			r.Verdict = fw.Inconclusive
			r.Detail = det
			return false
		}
		if sig != "" {
			r.Verdict = fw.Violated
			r.Sig = sig + ":" + sigClass(s.Class)
			r.Detail = det
			r.Trace = trc
			r.Sample = s
			return false
		}
		if s.Listed {
			r.Counters["listed_malformed_ended_link"]++
		}
		r.Counters[obs[:indexOf(obs, ':')]]++
		r.NT = append(r.NT, fw.Hash(s.Blob, s.Prefix, s.Chunk))
		return true
	}
	switch p.Mode {
	case "pending":
		// hostile acknowledgements that MATCH requests in flight: right type and identifier, wrong shape
		rng := env.Rng(c)
		for i := 0; i < p.N; i++ {
			sig, det, trc, shape := c06Pending(rng)
			r.Evals++
			if sig == "inconclusive" {
				r.Counters["inconclusive_runs"]++
				if r.Counters["inconclusive_runs"] > 2 {
					r.Verdict = fw.Inconclusive
					r.Detail = det
					return r
				}
				continue
			}
			if sig != "" {
				r.Verdict = fw.Violated
				r.Sig = sig
				r.Detail = det
				r.Trace = trc
				return r
			}
			r.Counters["pending_calls_answered_with_hostile_acks"]++
			r.NT = append(r.NT, fw.Hash("pending", shape))
			if r.Sample == nil {
				r.Sample = map[string]interface{}{"mode": "pending", "hostile_ack": shape}
			}
		}
		return r
	case "subackcodes":
		// failure and reserved SUBACK return codes, then reconnects without session: the re-subscription built from
		// what the client remembered must not bring the process down
		rng := env.Rng(c)
		wl := []string{"subs1", "subs3", "subs5", "subs6", "mixed", "outage2", "q2sub"}
		for i := 0; i < p.N; i++ {
			w := wl[(i+p.Part)%len(wl)]
			rp := retryParams{W: w, Cfg: scen.BrokerCfg{Method: "A", Session: "lose", Grant: "hostile"}, Always: i%3 == 0, Chunk: []int{0, 1, 3}[i%3], Client: []string{"", "retry"}[i%2], Mode: "random", N: 1}
			for _, sc := range rp.scenarios(rng) {
				sc := sc
				fmt.Printf("## suback-codes workload=%s faults=%v\n", w, sc.Faults)
				run := scen.Exec(&sc)
				r.Evals++
				if run.Inconcl != "" {
					r.Counters["inconclusive_runs"]++
					continue
				}
				a := scen.Analyse(run)
				for _, f := range a.Hygiene() {
					if f.Sig == "protocol-error" {
						continue
					}
					r.Verdict = fw.Violated
					r.Sig = "malformed-write-after-hostile-suback"
					r.Detail = f.Sig + ": " + f.Detail + fmt.Sprintf("\nworkload=%s faults=%v", w, sc.Faults)
					r.Trace = a.Tail(80)
					return r
				}
				n := 0
				for _, e := range a.Ev {
					if e.Kind == memnet.KSend && e.Pkt != nil && e.Pkt.Type == mqttref.SUBACK {
						for _, code := range e.Pkt.Codes {
							if code > 2 {
								n++
							}
						}
					}
				}
				r.Counters["failure_or_reserved_suback_codes_sent"] += n
				r.Counters["connections_after_hostile_suback"] += a.Connections()
				if n > 0 && a.Connections() >= 2 {
					r.NT = append(r.NT, fw.Hash("subackcodes", w, a.FaultShape(), i, p.Part))
				}
			}
		}
		r.Sample = map[string]interface{}{"mode": "subackcodes", "workloads": wl}
		return r
	case "one":
		run(*p.One)
	case "structural":
		for i, s := range structuralStreams() {
			if i%p.Of != p.Part {
				continue
			}
			if !run(s) {
				return r
			}
			if r.Sample == nil {
				r.Sample = s
			}
		}
	case "random":
		rng := env.Rng(c)
		for i := 0; i < p.N; i++ {
			s := randomStream(rng)
			if !run(s) {
				return r
			}
			if r.Sample == nil {
				r.Sample = s
			}
		}
	case "preconnack":
		// hostile bytes instead of (or in front of) the CONNACK, while Connect is waiting
		rng := env.Rng(c)
		streams := structuralStreams()
		var list []c06Stream
		for i, s := range streams {
			if i%p.Of == p.Part && !s.Truncate {
				list = append(list, s)
			}
		}
		for i := 0; i < p.N; i++ {
			list = append(list, randomStream(rng))
		}
		for _, s := range list {
			fmt.Printf("## preconnack class=%s blob=%s\n", s.Class, clip(s.Blob, 200))
			sig, det, trc := c06PreConnack(s)
			r.Evals++
			if sig == "inconclusive" {
				r.Verdict = fw.Inconclusive
				r.Detail = det
				return r
			}
			if sig != "" {
				r.Verdict = fw.Violated
				r.Sig = sig + ":" + sigClass(s.Class)
				r.Detail = det
				r.Trace = trc
				r.Sample = s
				return r
			}
			r.NT = append(r.NT, fw.Hash("pre", s.Blob, s.Chunk))
			r.Counters["preconnack_streams"]++
			if s.Listed && !s.Truncate {
				// the same malformed packet right behind an accepting CONNACK (one buffer): whether or not Connect has
				// marked the connection active yet, the link must end with an observable error
				sig, det, trc := c06BehindConnack(s)
				r.Evals++
				if sig == "inconclusive" {
					r.Counters["inconclusive_runs"]++
				} else if sig != "" {
					r.Verdict = fw.Violated
					r.Sig = sig + ":" + sigClass(s.Class)
					r.Detail = det
					r.Trace = trc
					r.Sample = s
					return r
				} else {
					r.Counters["malformed_right_behind_connack"]++
				}
			}
		}
		if len(list) > 0 {
			r.Sample = map[string]interface{}{"mode": "preconnack", "example_blob": list[0].Blob, "class": list[0].Class}
		}
	case "parsers":
		rng := env.Rng(c)
		for i := 0; i < p.N; i++ {
			t := byte(rng.Intn(16) << 4)
			fl := byte(rng.Intn(16))
			n := rng.Intn(12)
			if rng.Intn(8) == 0 {
				n = rng.Intn(300)
			}
			b := make([]byte, n)
			rng.Read(b)
			if rng.Intn(2) == 0 && n >= 2 {
				b[0] = 0
				b[1] = byte(rng.Intn(n + 2))
			}
			if i%64 == 0 {
				fmt.Printf("## parser type=%x flag=%x body=%x\n", t, fl, b)
			}
			mqtt.VerifParse(t, fl, b) // must not panic (a panic is caught by the case runner)
		}
		r.Evals = p.N
		r.NTCount = p.N
		r.Sample = map[string]interface{}{"mode": "parsers", "n": p.N}
	}
	return r
}

func indexOf(s string, c byte) int {
	for i := 0; i < len(s); i++ {
		if s[i] == c {
			return i
		}
	}
	return len(s)
}

func clip(s string, n int) string {
	if len(s) > n {
		return s[:n] + "…"
	}
	return s
}

// sigClass reduces a generator class to a stable signature component.
func sigClass(c string) string {
	for i := 0; i < len(c); i++ {
		if c[i] == ':' {
			return c[i+1:]
		}
	}
	out := []byte{}
	for i := 0; i < len(c); i++ {
		if c[i] >= '0' && c[i] <= '9' {
			continue
		}
		out = append(out, c[i])
	}
	return string(out)
}

func randomStream(rng *rand.Rand) c06Stream {
	var blob []byte
	switch rng.Intn(4) {
	case 0: // pure noise
		blob = make([]byte, 1+rng.Intn(40))
		rng.Read(blob)
	case 1: // mutated valid packet
		w := [][]byte{
			mqttref.EncPublish("m/x", []byte("payload"), byte(rng.Intn(3)), false, false, uint16(1+rng.Intn(9))),
			mqttref.EncAck(mqttref.PUBACK+rng.Intn(4), uint16(rng.Intn(9))), mqttref.EncSubAck(uint16(rng.Intn(9)), []byte{0, 1}),
			mqttref.EncPingResp(), mqttref.EncAck(mqttref.UNSUBACK, 4), mqttref.EncConnAck(false, 0),
		}[rng.Intn(6)]
		blob = append([]byte{}, w...)
		for k := 1 + rng.Intn(3); k > 0; k-- {
			switch rng.Intn(3) {
			case 0:
				blob[rng.Intn(len(blob))] ^= byte(1 << uint(rng.Intn(8)))
			case 1:
				blob[rng.Intn(len(blob))] = byte(rng.Intn(256))
			case 2:
				if len(blob) > 2 {
					blob = blob[:len(blob)-1]
					blob[1]-- // keep framing consistent where possible
				}
			}
		}
	case 2: // random header + consistent length + random body
		n := rng.Intn(8)
		body := make([]byte, n)
		rng.Read(body)
		blob = mqttref.EncRaw(byte(rng.Intn(256)), body)
	case 3: // several random small packets
		for k := 1 + rng.Intn(3); k > 0; k-- {
			n := rng.Intn(5)
			body := make([]byte, n)
			rng.Read(body)
			blob = append(blob, mqttref.EncRaw(byte(rng.Intn(16)<<4)|validFlagsMaybe(rng), body)...)
		}
	}
	s := c06Stream{Prefix: rng.Intn(4), Chunk: []int{0, 1, 2, 7}[rng.Intn(4)], Blob: hex.EncodeToString(blob)}
	// classify the first packet that is not plainly well-formed
	rest := blob
	s.Class = "random/all-wellformed"
	for len(rest) > 0 {
		n, err := mqttref.Frame(rest)
		if err == mqttref.ErrShort {
			// incomplete: the canary's bytes will complete it; nothing can be demanded
			s.Class = "random/misframed"
			break
		}
		if err != nil {
			s.Class, s.Listed, s.LenBytes = "random/length-field", true, 0
			break
		}
		pk, derr := mqttref.Decode(rest[:n])
		t := int(rest[0] >> 4)
		if derr != nil {
			cl, listed := classify(t, derr)
			s.Class, s.Listed = "random/"+cl, listed
			break
		}
		if cl, _ := classify(pk.Type, nil); cl == "client-only-type" {
			s.Class = "random/client-only-type"
			break
		}
		rest = rest[n:]
	}
	return s
}

func validFlagsMaybe(rng *rand.Rand) byte {
	if rng.Intn(3) == 0 {
		return byte(rng.Intn(16))
	}
	return 0
}

func init() {
	fw.Register(&fw.Prop{
		ID:    "C06",
		Level: "exploration",
		Rule: "structural generator: every packet type x flag nibble x body length 0-5, length fields of 1-12 bytes (non-minimal, over-long, endless 0xFF/0x80 runs), truncation of well-formed packets at byte offsets followed by peer close, PUBLISH with string length beyond the body / QoS 3 / missing id / U+0000, short SUBACK/CONNACK/acks; " +
			"seeded random and mutated streams; random bodies handed directly to every packet parser; the same blobs sent instead of the CONNACK while Connect is waiting (Connect must return, nil only for a CONNACK with return code 0). Each hostile blob follows 0-3 well-formed PUBLISHes and is followed by a canary PUBLISH, with read chunking 1/2/7/whole. " +
			"Oracle: worker process survives (journal attribution otherwise); every Read buffer <= 268435455; for blobs an independent strict decoder puts in the property's list the library must Close the transport before parking on the exhausted input, the canary must not be handed over, " +
			"over-long length fields consume at most 4 length bytes, Done() closes, Err() and the Closed callback carry the same non-nil error; the prefix is handed over / acknowledged. Non-trivial: distinct (blob,prefix,chunk) streams.",
		Assumptions: []string{"leniencies the property's list does not mention (non-minimal length encoding, DUP on QoS 0, over-long ack bodies, invalid UTF-8 other than U+0000, client-only packet types) are only required not to crash or over-allocate",
			"a random blob that mis-frames the following canary is only required not to crash"},
		Gen: c06Gen,
		Run: c06Run,
		Budget: func(tier string) time.Duration {
			return 15 * time.Minute
		},
	})
}

// c06Pending: calls of every kind are waiting; the peer answers one of them with an acknowledgement of the right
// type and identifier but a hostile shape (SUBACK with too many / too few / no return codes or reserved codes,
// fixed-size acknowledgements with trailing bytes or reserved flags). Whatever the client makes of it, the process
// survives, the calls return once the connection is closed, and well-formed oddities (surplus codes) do not index
// out of the request.
func c06Pending(rng *rand.Rand) (sig, detail string, trace []string, shape string) {
	tr := memnet.NewTrace()
	peer := &scen.Script{Tr: tr, AutoConnack: true, AutoPing: true}
	cli, conn := scen.NewBase(tr, peer)
	conn.Chunk = []int{0, 1, 3}[rng.Intn(3)]
	if err := scen.ConnectBase(cli); err != nil {
		return "inconclusive", err.Error(), nil, ""
	}
	defer cli.Close()
	ctx, cancel := context.WithTimeout(context.Background(), 3*scen.Watchdog)
	defer cancel()
	nf := 1 + rng.Intn(4)
	done := make(chan string, 8)
	start := func(name string, fn func() error) {
		go func() {
			cs := tr.Call(name, "")
			err := fn()
			tr.Ret(cs, name, "", err)
			done <- name
		}()
	}
	start("Subscribe", func() error {
		var req []mqtt.Subscription
		for j := 0; j < nf; j++ {
			req = append(req, mqtt.Subscription{Topic: fmt.Sprintf("c6/%d", j), QoS: mqtt.QoS(j % 3)})
		}
		_, err := cli.Subscribe(ctx, req...)
		return err
	})
	start("Unsubscribe", func() error { return cli.Unsubscribe(ctx, "c6/u") })
	start("Publish-q1", func() error {
		return cli.Publish(ctx, &mqtt.Message{Topic: "c6/p1", QoS: mqtt.QoS1, Payload: []byte("x")})
	})
	start("Publish-q2", func() error {
		return cli.Publish(ctx, &mqtt.Message{Topic: "c6/p2", QoS: mqtt.QoS2, Payload: []byte("x")})
	})
	in, ok := peer.WaitIn(scen.Watchdog, 4, func(p *mqttref.Packet) bool {
		return p.Type == mqttref.PUBLISH || p.Type == mqttref.SUBSCRIBE || p.Type == mqttref.UNSUBSCRIBE
	})
	if !ok {
		return "inconclusive", "requests not seen", tr.Dump(30), ""
	}
	ids := map[int]uint16{}
	for _, ip := range in {
		t := ip.P.Type
		if t == mqttref.PUBLISH && ip.P.QoS == 2 {
			t = 100
		}
		ids[t] = ip.P.ID
	}
	idb := func(id uint16) []byte { return []byte{byte(id >> 8), byte(id)} }
	var raw []byte
	switch k := rng.Intn(6); k {
	case 0, 1, 2: // SUBACK for the pending Subscribe: any number of codes, any values
		n := rng.Intn(nf + 5)
		if k == 0 {
			n = nf + 1 + rng.Intn(3) // surplus codes
		}
		body := idb(ids[mqttref.SUBSCRIBE])
		for j := 0; j < n; j++ {
			body = append(body, []byte{0, 1, 2, 0x80, 3, 0x7f, 0xff}[rng.Intn(7)])
		}
		raw = mqttref.EncRaw(byte(mqttref.SUBACK<<4), body)
		shape = fmt.Sprintf("SUBACK %d codes for %d filters", n, nf)
	case 3: // UNSUBACK / PUBACK with trailing bytes or reserved flags
		t, id := mqttref.UNSUBACK, ids[mqttref.UNSUBSCRIBE]
		if rng.Intn(2) == 0 {
			t, id = mqttref.PUBACK, ids[mqttref.PUBLISH]
		}
		body := idb(id)
		for j := rng.Intn(4); j > 0; j-- {
			body = append(body, byte(rng.Intn(256)))
		}
		fl := byte(rng.Intn(16))
		raw = mqttref.EncRaw(byte(t<<4)|fl, body)
		shape = fmt.Sprintf("%s flags=%x body=%d", mqttref.TypeName(t), fl, len(body))
	case 4: // PUBREC with trailing bytes, then PUBCOMP likewise
		body := append(idb(ids[100]), make([]byte, rng.Intn(3))...)
		raw = mqttref.EncRaw(byte(mqttref.PUBREC<<4), body)
		body2 := append(idb(ids[100]), make([]byte, rng.Intn(3))...)
		raw = append(raw, mqttref.EncRaw(byte(mqttref.PUBCOMP<<4)|byte(rng.Intn(2)), body2)...)
		shape = fmt.Sprintf("PUBREC body=%d + PUBCOMP body=%d", len(body), len(body2))
	case 5: // acknowledgement body cut short: identifier incomplete
		t := []int{mqttref.SUBACK, mqttref.UNSUBACK, mqttref.PUBACK, mqttref.PUBREC}[rng.Intn(4)]
		raw = mqttref.EncRaw(byte(t<<4), idb(ids[mqttref.SUBSCRIBE])[:rng.Intn(2)])
		shape = fmt.Sprintf("%s with %d-byte body", mqttref.TypeName(t), len(raw)-2)
	}
	fmt.Printf("## pending hostile-ack %s raw=%x\n", shape, raw)
	conn.Send(raw, "hostile acknowledgement for a pending request")
	// a barrier Ping shows whether the link is still up; either way nothing may hang once it is closed
	bctx, bcancel := context.WithTimeout(context.Background(), scen.Watchdog)
	cli.Ping(bctx)
	bcancel()
	cli.Close()
	for i := 0; i < 4; i++ {
		select {
		case <-done:
		case <-time.After(scen.Watchdog):
			if scen.CertifyStuck(tr, conn) {
				return "call-hangs-after-hostile-ack", fmt.Sprintf("after %s and a local Close a pending call never returned", shape), tr.Dump(60), shape
			}
			return "inconclusive", "pending calls not returned within the watchdog", tr.Dump(30), shape
		}
	}
	return "", "", nil, shape
}

// c06BehindConnack: CONNACK(0) and a malformed packet arrive in one buffer.
func c06BehindConnack(s c06Stream) (sig, detail string, trace []string) {
	blob, _ := hex.DecodeString(s.Blob)
	tr := memnet.NewTrace()
	peer := &scen.Script{Tr: tr}
	peer.OnPkt = func(cn *memnet.Conn, p *mqttref.Packet, raw []byte) bool {
		if p != nil && p.Type == mqttref.CONNECT {
			cn.SendLocked(mqttref.EncConnAck(false, 0), "")
			cn.SendLocked(blob, "hostile-right-behind-connack:"+s.Class)
		}
		return false
	}
	cli, conn := scen.NewBase(tr, peer)
	conn.Chunk = s.Chunk
	conn.LateWriteOK = true
	ctx, cancel := context.WithTimeout(context.Background(), scen.Watchdog)
	defer cancel()
	_, cerr := cli.Connect(ctx, "verif")
	defer cli.Close()
	fail := func(sg, f string, a ...interface{}) (string, string, []string) {
		return sg, fmt.Sprintf(f, a...) + fmt.Sprintf("\nblob=%s class=%s chunk=%d (Connect returned %v)", s.Blob, s.Class, s.Chunk, cerr), tr.Dump(30)
	}
	if scen.IsDeadline(cerr) {
		return "inconclusive", "Connect watchdog", nil
	}
	select {
	case <-cli.Done():
	case <-time.After(scen.Watchdog):
		if scen.CertifyStuck(tr, conn) {
			return fail("link-survives-malformed-packet", "a malformed packet right behind CONNACK did not end the connection")
		}
		return "inconclusive", "Done watchdog", nil
	}
	// let the Closed callback be delivered
	closedErr, closedSeen := "", false
	for i := 0; i < 2000 && !closedSeen; i++ {
		for _, e := range tr.Snapshot() {
			if e.Kind == memnet.KState && e.S == "Closed" {
				closedSeen, closedErr = true, e.Err
			}
		}
		if !closedSeen {
			time.Sleep(100 * time.Microsecond)
		}
	}
	if cli.Err() == nil {
		return fail("malformed-packet-without-error", "the connection ended on a malformed packet right behind CONNACK but Err() is nil")
	}
	if closedSeen && closedErr == "" {
		return fail("malformed-packet-without-error", "the connection ended on a malformed packet right behind CONNACK but the Closed callback carried no error")
	}
	return "", "", nil
}
