package checks

import (
	"fmt"
	"math/rand"
	"strings"

	mqtt "github.com/at-wat/mqtt-go"
	"verif/fw"
)

// ---- independent reference for MQTT 3.1.1 section 4.7 ----

func refValidFilter(f string) bool {
	if f == "" {
		return false
	}
	lv := strings.Split(f, "/")
	for i, l := range lv {
		if strings.ContainsRune(l, '#') && (l != "#" || i != len(lv)-1) {
			return false
		}
		if strings.ContainsRune(l, '+') && l != "+" {
			return false
		}
	}
	return true
}

func refMatchLevels(f, t []string) bool {
	if len(f) == 0 {
		return len(t) == 0
	}
	if f[0] == "#" {
		return true // the parent level and any number of child levels
	}
	if len(t) == 0 {
		return false
	}
	if f[0] == "+" || f[0] == t[0] {
		return refMatchLevels(f[1:], t[1:])
	}
	return false
}

func refMatch(filter, topic string) bool {
	return refMatchLevels(strings.Split(filter, "/"), strings.Split(topic, "/"))
}

// ---- black-box access to the library through ServeMux ----

func libValid(f string) bool {
	var m mqtt.ServeMux
	return m.Handle(f, mqtt.HandlerFunc(func(*mqtt.Message) {})) == nil
}

type c14Params struct {
	Mode  string `json:"mode"` // valid | match | random | dispatch
	Part  int    `json:"part"`
	Of    int    `json:"of"`
	Depth int    `json:"depth"`
	TDep  int    `json:"tdepth"`
	N     int    `json:"n"`
}

var c14FilterAlpha = []string{"", "a", "b", "+", "#", "a+", "+a", "a#", "#a", "++"}
var c14TopicAlpha = []string{"", "a", "b", "c"}

func enumLevels(alpha []string, maxDepth int, fn func(string)) {
	var rec func(prefix []string, d int)
	rec = func(prefix []string, d int) {
		if d > 0 {
			fn(strings.Join(prefix, "/"))
		}
		if d == maxDepth {
			return
		}
		for _, a := range alpha {
			rec(append(prefix, a), d+1)
		}
	}
	rec(nil, 0)
}

func c14Gen(tier string, seed int64) []fw.Case {
	var cs []fw.Case
	fd, td, parts, nrand, ndisp := 3, 4, 8, 25000, 600
	if tier == "thorough" {
		fd, td, parts, nrand, ndisp = 4, 5, 32, 3000000, 200000
	}
	cs = append(cs, fw.Mk("validity-exhaustive", c14Params{Mode: "valid", Depth: fd + 1}))
	for i := 0; i < parts; i++ {
		cs = append(cs, fw.Mk(fmt.Sprintf("match-exhaustive-%d/%d", i, parts), c14Params{Mode: "match", Part: i, Of: parts, Depth: fd, TDep: td}))
	}
	for i := 0; i < 8; i++ {
		cs = append(cs, fw.Mk(fmt.Sprintf("random-%d", i), c14Params{Mode: "random", N: nrand / 8}))
		cs = append(cs, fw.Mk(fmt.Sprintf("dispatch-%d", i), c14Params{Mode: "dispatch", N: ndisp / 8}))
	}
	return cs
}

func c14Run(c fw.Case, env *fw.Env) fw.Result {
	var p c14Params
	fw.Params(c, &p)
	r := fw.Result{Counters: map[string]int{}}
	fail := func(sig, f string, a ...interface{}) fw.Result {
		r.Verdict = fw.Violated
		r.Sig = sig
		r.Detail = fmt.Sprintf(f, a...)
		return r
	}
	switch p.Mode {
	case "valid":
		var bad string
		n := 0
		enumLevels(c14FilterAlpha, p.Depth, func(f string) {
			n++
			want := refValidFilter(f)
			if want {
				r.Counters["valid_filters"]++
			} else {
				r.Counters["invalid_filters"]++
			}
			if got := libValid(f); got != want && bad == "" {
				bad = fmt.Sprintf("filter %q: library accepted=%v, MQTT 4.7 valid=%v", f, got, want)
			}
		})
		if libValid("") {
			bad = "empty filter accepted"
		}
		r.NTCount = n
		r.Sample = map[string]interface{}{"mode": "valid", "filters_enumerated": n, "example": "a/+/#"}
		if bad != "" {
			return fail("filter-validity", "%s", bad)
		}
	case "match":
		var filters []string
		enumLevels(c14FilterAlpha, p.Depth, func(f string) {
			if refValidFilter(f) {
				filters = append(filters, f)
			}
		})
		var topics []string
		enumLevels(c14TopicAlpha, p.TDep, func(t string) { topics = append(topics, t) })
		pairs, matches := 0, 0
		for i, f := range filters {
			if i%p.Of != p.Part {
				continue
			}
			// black box: one mux per filter, one handler
			var m mqtt.ServeMux
			hit := 0
			if err := m.Handle(f, mqtt.HandlerFunc(func(*mqtt.Message) { hit++ })); err != nil {
				return fail("filter-validity", "valid filter %q rejected: %v", f, err)
			}
			for _, t := range topics {
				hit = 0
				m.Serve(&mqtt.Message{Topic: t})
				want := refMatch(f, t)
				pairs++
				if want {
					matches++
				}
				if (hit == 1) != want || hit > 1 {
					return fail("filter-match", "filter %q topic %q: handler invoked %d times, reference match=%v", f, t, hit, want)
				}
			}
		}
		r.Counters["pairs"] = pairs
		r.Counters["matching_pairs"] = matches
		r.NTCount = pairs
		r.Sample = map[string]interface{}{"mode": "match", "filters": len(filters), "topics": len(topics), "pairs_this_part": pairs, "example": []string{"a/+/#", "a//b"}}
	case "random":
		rng := env.Rng(c)
		lv := []string{"", "a", "b", "ab", "é", "日本", "+", "#", "a+", "#b", "x y", "+/", "0"}
		tl := []string{"", "a", "b", "ab", "é", "日本", "x y", "0", "c", "$d", "a$"}
		for i := 0; i < p.N; i++ {
			f := randLevels(rng, lv, 1+rng.Intn(8))
			t := randLevels(rng, tl, 1+rng.Intn(8))
			if rng.Intn(3) == 0 {
				// derive the topic from the filter so that matches are frequent
				t = topicFromFilter(rng, f, tl)
			}
			if strings.HasPrefix(t, "$") {
				continue
			}
			want := refValidFilter(f)
			var m mqtt.ServeMux
			hit := 0
			err := m.Handle(f, mqtt.HandlerFunc(func(*mqtt.Message) { hit++ }))
			if (err == nil) != want {
				return fail("filter-validity", "filter %q: library err=%v, reference valid=%v", f, err, want)
			}
			if !want {
				r.Counters["random_invalid"]++
				continue
			}
			m.Serve(&mqtt.Message{Topic: t})
			wm := refMatch(f, t)
			if wm {
				r.Counters["random_match"]++
			} else {
				r.Counters["random_nomatch"]++
			}
			if (hit == 1) != wm || hit > 1 {
				return fail("filter-match", "filter %q topic %q: handler invoked %d times, reference match=%v", f, t, hit, wm)
			}
			r.NT = append(r.NT, "r:"+f+"|"+t)
		}
		r.Sample = map[string]interface{}{"mode": "random", "n": p.N}
	case "dispatch":
		// interleaved Handle / Serve operations on one mux against a reference list
		rng := env.Rng(c)
		lv := []string{"a", "b", "+", "#", "", "a+"}
		tl := []string{"a", "b", "", "c", "$s"}
		for i := 0; i < p.N; i++ {
			var m mqtt.ServeMux
			var reg []string // registered (valid) filters in order
			var got []int
			nops := 2 + rng.Intn(14)
			var ops []string
			topics := []string{randLevels(rng, tl, 1+rng.Intn(3)), randLevels(rng, tl, 1+rng.Intn(3))}
			for ti := range topics {
				if strings.HasPrefix(topics[ti], "$") {
					topics[ti] = "a/" + topics[ti] // topics starting with '$' are outside the property; '$' deeper down is ordinary
				}
			}
			for o := 0; o < nops; o++ {
				if rng.Intn(2) == 0 {
					f := randLevels(rng, lv, 1+rng.Intn(3))
					if rng.Intn(3) == 0 && len(reg) > 0 {
						f = reg[rng.Intn(len(reg))] // repeated filter
					}
					id := len(reg)
					rewrite := rng.Intn(3) == 0
					err := m.Handle(f, mqtt.HandlerFunc(func(msg *mqtt.Message) {
						got = append(got, id)
						if rewrite {
							// a sub-router stripping a prefix: which later handlers run is decided by the topic that was served
							if i := strings.Index(msg.Topic, "/"); i >= 0 {
								msg.Topic = msg.Topic[i+1:]
							} else {
								msg.Topic = "b"
							}
						}
					}))
					ops = append(ops, "H "+f)
					if (err == nil) != refValidFilter(f) {
						return fail("filter-validity", "ops %v: Handle(%q) err=%v", ops, f, err)
					}
					if err == nil {
						reg = append(reg, f)
					}
				} else {
					t := topics[rng.Intn(2)] // few topics: the same topic is served again after registrations
					got = nil
					m.Serve(&mqtt.Message{Topic: t})
					ops = append(ops, "S "+t)
					var want []int
					for id, f := range reg {
						if refMatch(f, t) {
							want = append(want, id)
						}
					}
					if fmt.Sprint(got) != fmt.Sprint(want) {
						return fail("mux-dispatch", "ops %v: handlers invoked %v, reference (registration order) %v; registered=%q", ops, got, want, reg)
					}
					if len(want) > 1 {
						r.Counters["multi_handler_dispatch"]++
					}
				}
			}
			r.NT = append(r.NT, "d:"+strings.Join(ops, ","))
			if i == 0 {
				r.Sample = map[string]interface{}{"mode": "dispatch", "ops": ops}
			}
		}
	}
	return r
}

func randLevels(rng *rand.Rand, alpha []string, n int) string {
	l := make([]string, n)
	for i := range l {
		l[i] = alpha[rng.Intn(len(alpha))]
	}
	return strings.Join(l, "/")
}

func topicFromFilter(rng *rand.Rand, f string, tl []string) string {
	lv := strings.Split(f, "/")
	var out []string
	for _, l := range lv {
		switch {
		case l == "+":
			out = append(out, tl[rng.Intn(len(tl))])
		case l == "#":
			for k := rng.Intn(3); k > 0; k-- {
				out = append(out, tl[rng.Intn(len(tl))])
			}
		case strings.ContainsAny(l, "+#"):
			out = append(out, "a")
		default:
			out = append(out, l)
		}
	}
	if rng.Intn(4) == 0 && len(out) > 0 {
		out = out[:len(out)-1] // stop short (parent / ancestors of a '#')
	}
	if rng.Intn(6) == 0 {
		out = append(out, tl[rng.Intn(len(tl))])
	}
	if len(out) == 0 {
		return "a"
	}
	return strings.Join(out, "/")
}

func init() {
	fw.Register(&fw.Prop{
		ID:    "C14",
		Level: "exploration",
		Rule: "exhaustive: every filter over level alphabet {\"\",a,b,+,#,a+,+a,a#,#a,++} up to depth D+1 checked for validity; every valid filter up to depth D x every topic over {\"\",a,b,c} up to depth T checked for match " +
			"(quick D=3,T=4; thorough D=4,T=5) through ServeMux.Handle/Serve against an independent level-wise 4.7 reference; plus seeded random filters/topics (UTF-8, depth<=8) and random interleaved Handle/Serve operation " +
			"sequences on one mux (dispatch order = registration order). A case is non-trivial if it is a distinct (filter,topic) pair or operation sequence actually evaluated against the library.",
		Assumptions: []string{"topic names starting with '$' are excluded as the property says", "the reference matcher is the specification (written from MQTT 3.1.1 section 4.7)"},
		Gen:         c14Gen,
		Run:         c14Run,
	})
}
