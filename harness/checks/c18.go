package checks

import (
	"fmt"
	"strings"

	"verif/fw"
	"verif/memnet"
	"verif/mqttref"
	"verif/scen"
)

type c18Params struct {
	W    string `json:"w"`
	Mode string `json:"mode"` // single | pairs
	Resp int    `json:"resp"`
	Part int    `json:"part"`
	Of   int    `json:"of"`
	Lose bool   `json:"lose,omitempty"` // session-less broker: every reconnect re-subscribes
}

var c18Workloads = []string{"q1x3", "q2x2", "mixed", "waits"}

func c18Gen(tier string, seed int64) []fw.Case {
	var cs []fw.Case
	for _, w := range c18Workloads {
		for _, resp := range []int{8, 15} {
			cs = append(cs, fw.Mk(fmt.Sprintf("single/%s/resp%d", w, resp), c18Params{W: w, Mode: "single", Resp: resp}))
			cs = append(cs, fw.Mk(fmt.Sprintf("triples/%s/resp%d", w, resp), c18Params{W: w, Mode: "triples", Resp: resp}))
			parts := scale(tier, 2, 6)
			for i := 0; i < parts; i++ {
				cs = append(cs, fw.Mk(fmt.Sprintf("pairs/%s/resp%d/%d", w, resp, i), c18Params{W: w, Mode: "pairs", Resp: resp, Part: i, Of: parts}))
			}
		}
	}
	// the broker stops reading as well (a writer is blocked on the connection that has to be given up)
	for _, resp := range []int{8, 15} {
		cs = append(cs, fw.Mk(fmt.Sprintf("stall/resp%d", resp), c18Params{W: "stall", Mode: "stall", Resp: resp}))
	}
	// re-subscriptions whose SUBACK is dropped (session-less broker)
	for _, resp := range []int{8, 15} {
		cs = append(cs, fw.Mk(fmt.Sprintf("single/resub-lose/resp%d", resp), c18Params{W: "resub", Mode: "single", Resp: resp, Lose: true}))
		cs = append(cs, fw.Mk(fmt.Sprintf("pairs/resub-lose/resp%d", resp), c18Params{W: "resub", Mode: "pairs", Resp: resp, Part: 0, Of: 1, Lose: true}))
	}
	return cs
}

func c18Run(c fw.Case, env *fw.Env) fw.Result {
	var p c18Params
	fw.Params(c, &p)
	r := fw.Result{Counters: map[string]int{}}
	w := workloads[p.W]
	n := w.reqPackets()
	var plans [][]scen.Fault
	switch p.Mode {
	case "single":
		for k := 2; k <= n+1; k++ {
			plans = append(plans, []scen.Fault{{At: k, Kind: scen.DropResp}})
			plans = append(plans, []scen.Fault{{At: k, Kind: scen.DropReq}}) // the request itself vanishes on a stalled link
		}
	case "stall":
		// exactly the acknowledgement of "b" (third request packet) is dropped resp. the request swallowed: the stall
		// begins while that acknowledgement is awaited. (A stall at any other moment blocks the client's own next
		// Write, which no timeout of the library covers - transports are expected to bound their writes themselves.)
		for i := 0; i < 6; i++ {
			plans = append(plans, []scen.Fault{{At: 3, Kind: []string{scen.DropResp, scen.DropReq}[i%2]}})
		}
	case "triples":
		// the acknowledgement is dropped on three consecutive connections: first transmission,
		// first retransmission and second retransmission
		for k1 := 2; k1 <= n; k1++ {
			for d1 := 1; d1 <= 3; d1++ {
				for d2 := 1; d2 <= 3; d2++ {
					if env.Tier != "thorough" && (k1+d1+d2)%2 == 1 {
						continue
					}
					plans = append(plans, []scen.Fault{{At: k1, Kind: scen.DropResp}, {At: k1 + d1, Kind: scen.DropResp}, {At: k1 + d1 + d2, Kind: scen.DropResp}})
				}
			}
		}
	case "pairs":
		i := 0
		for k1 := 2; k1 <= n; k1++ {
			for d := 1; d <= 4; d++ {
				if i%p.Of == p.Part {
					plans = append(plans, []scen.Fault{{At: k1, Kind: scen.DropResp}, {At: k1 + d, Kind: scen.DropResp}})
					if env.Tier == "thorough" {
						plans = append(plans, []scen.Fault{{At: k1, Kind: scen.DropResp}, {At: k1 + d, Kind: scen.DropResp}, {At: k1 + d + 2, Kind: scen.CutAfter}})
					}
				}
				i++
			}
		}
	}
	stuck := 0
	for pi, f := range plans {
		// the error a transport returns after the library's own Close differs between transports: net.Pipe, TCP, memnet's own
		session := "keep"
		if p.Lose {
			session = "lose"
		}
		sc := scen.Scenario{Client: "reconnect", Cfg: scen.BrokerCfg{Method: "A", Session: session}, Steps: w.Steps, Pre: w.Pre, Faults: f, RespMs: p.Resp, WaitBaseMs: 1, WaitMaxMs: 2, TimeoutMs: 40, CloseStyle: []string{"pipe", "net", ""}[pi%3], CloseLinger: []int{0, 0, 3}[(pi/3)%3], OnErrorPublishes: pi%2 == 1}
		run := scen.Exec(&sc)
		r.Evals++
		a := scen.Analyse(run)
		fail := func(sig, f2 string, args ...interface{}) fw.Result {
			r.Verdict = fw.Violated
			r.Sig = sig
			r.Detail = fmt.Sprintf(f2, args...) + fmt.Sprintf("\nworkload=%s faults=%v ResponseTimeout=%dms fired: %s", p.W, f, p.Resp, a.FaultShape())
			if run.GoDump != "" {
				r.Detail += "\nlibrary goroutines:\n" + run.GoDump
			}
			r.Trace = a.Tail(150)
			r.Sample = sc
			return r
		}
		if run.Stuck {
			stuck++
			// what was it waiting for?
			wait := "?"
			for _, e := range a.Ev {
				if e.Kind == memnet.KFault {
					wait = fmt.Sprintf("%s on connection %d (%v)", e.S, e.Conn, e.Pkt)
				}
			}
			return fail("waits-forever-on-silent-broker", "certified stuck: the client waits indefinitely for an acknowledgement the broker silently dropped (last fault: %s)", wait)
		}
		if run.Inconcl != "" {
			r.Counters["inconclusive_runs"]++
			if r.Counters["inconclusive_runs"] > 2 {
				r.Verdict = fw.Inconclusive
				r.Detail = run.Inconcl
				return r
			}
			continue
		}
		// every fired DropResp: timeout error reported, connection closed by the library, new connection, retransmission
		fired := 0
		for i, e := range a.Ev {
			if e.Kind != memnet.KFault || (e.S != scen.DropResp && e.S != scen.DropReq) {
				continue
			}
			if e.Pkt != nil && e.Pkt.Type == mqttref.PUBLISH && e.Pkt.QoS == 0 {
				continue // nothing to drop: QoS 0 has no acknowledgement
			}
			if e.Pkt != nil && e.Pkt.Type == mqttref.CONNECT {
				continue // a dropped CONNACK is the connect timeout's business, not ResponseTimeout's
			}
			fired++
			key := ""
			var wr memnet.Event
			for j := i; j >= 0; j-- {
				if a.Ev[j].Kind == memnet.KWrite && a.Ev[j].Conn == e.Conn && a.Ev[j].Pkt == e.Pkt {
					wr = a.Ev[j]
					break
				}
			}
			if e.Pkt != nil {
				key = scen.PktKey(e.Pkt)
				if e.Pkt.Type == mqttref.PUBREL {
					key = "PUBREL"
				}
			}
			var onerr, closeEv, redial *memnet.Event
			retrans := false
			for j := i + 1; j < len(a.Ev); j++ {
				x := a.Ev[j]
				switch {
				case x.Kind == memnet.KOnError && x.S == "RequestTimeoutError" && onerr == nil:
					onerr = &a.Ev[j]
				case x.Kind == memnet.KClose && x.Conn == e.Conn && closeEv == nil:
					closeEv = &a.Ev[j]
				case x.Kind == memnet.KDialEnd && x.OK && x.Conn > e.Conn && redial == nil:
					redial = &a.Ev[j]
				case x.Kind == memnet.KWrite && x.Conn > e.Conn && x.Pkt != nil:
					if e.Pkt.Type == mqttref.PUBREL && x.Pkt.Type == mqttref.PUBREL && x.Pkt.ID == e.Pkt.ID {
						retrans = true
					}
					if scen.PktKey(x.Pkt) == key && key != "" {
						retrans = true
					}
				}
			}
			what := fmt.Sprintf("acknowledgement of %v dropped on connection %d", e.Pkt, e.Conn)
			if onerr == nil {
				return fail("timeout-not-reported", "%s: no RequestTimeoutError was reported through OnError", what)
			}
			if closeEv == nil {
				return fail("connection-not-closed-after-timeout", "%s: the library never closed that connection", what)
			}
			_ = wr // no lower bound on the close time: the timeout context is created before the write, at a moment the trace cannot see
			if redial == nil {
				return fail("no-redial-after-timeout", "%s: no new connection was established", what)
			}
			if !retrans {
				return fail("not-retransmitted-after-timeout", "%s: the request was not transmitted again on a later connection", what)
			}
		}
		// the ledger must be discharged once drops stop
		if f := a.Ledger(); len(f) > 0 {
			return fail("request-lost-after-timeout:"+f[0].Sig, "%s", f[0].Detail)
		}
		r.Counters["dropped_acks_fired"] += fired
		if fired > 0 {
			r.NT = append(r.NT, fw.Hash(p.W, p.Resp, a.FaultShape()))
			if r.Sample == nil {
				r.Sample = map[string]interface{}{"workload": p.W, "faults": fmt.Sprint(f), "fired": a.FaultShape(), "response_timeout_ms": p.Resp}
			}
			if strings.Count(a.FaultShape(), scen.DropResp) >= 2 {
				r.Counters["runs_with_drop_on_retransmission_path"]++
			}
		}
	}
	return r
}

func init() {
	fw.Register(&fw.Prop{
		ID:    "C18",
		Level: "fault_enumeration",
		Rule: "real ReconnectClient with RetryClient.ResponseTimeout 8/15 ms; the broker model silently drops the acknowledgement (PUBACK, PUBREC, PUBCOMP, SUBACK, UNSUBACK) of the k-th request packet for every k (single sweep) and of two packets k1<k2<=k1+4 (pairs and triples: the later drops hit the retransmissions on the next connections; thorough adds a closing fault behind). " +
			"Oracle per fired drop: an OnError value that errors.As RequestTimeoutError, then library Close of that connection, then a new connection and a retransmission of the request; obligation ledger discharged at quiescence; a run certified stuck (nothing can move, a call blocked on a live silent connection) is a violation. Non-trivial: distinct (workload, fired drops).",
		Assumptions: []string{"no bound on the time of the close is asserted (the timeout context is created before the write at a moment the trace cannot see)", "certified-stuck certificate of DESIGN.md 2.6"},
		Gen:         c18Gen,
		Run:         c18Run,
		Budget:      retryBudget,
	})
}
