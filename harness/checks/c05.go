package checks

import (
	"bytes"
	"context"
	"errors"
	"fmt"
	"io"
	"math/rand"
	"sort"
	"strings"
	"time"

	mqtt "github.com/at-wat/mqtt-go"
	"verif/fw"
	"verif/memnet"
	"verif/mqttref"
	"verif/scen"
)

type c05Params struct {
	Mode string `json:"mode"` // len | readpkt | connect | publish | subs | inbound | reject
	Lo   int    `json:"lo,omitempty"`
	Hi   int    `json:"hi,omitempty"`
	N    int    `json:"n,omitempty"`
	Part int    `json:"part,omitempty"`
	Of   int    `json:"of,omitempty"`
	Big  bool   `json:"big,omitempty"`
}

var lenBoundaries = []int{0, 1, 126, 127, 128, 129, 16382, 16383, 16384, 16385, 2097150, 2097151, 2097152, 2097153, 268435454, 268435455}

func c05Gen(tier string, seed int64) []fw.Case {
	var cs []fw.Case
	if tier == "thorough" {
		const parts = 64
		step := (mqttref.MaxRemaining + 1) / parts
		for i := 0; i < parts; i++ {
			hi := (i+1)*step - 1
			if i == parts-1 {
				hi = mqttref.MaxRemaining
			}
			cs = append(cs, fw.Mk(fmt.Sprintf("len-exhaustive-%d", i), c05Params{Mode: "len", Lo: i * step, Hi: hi}))
		}
	} else {
		cs = append(cs, fw.Mk("len-boundaries", c05Params{Mode: "len", Lo: -1}))
		for i := 0; i < 8; i++ {
			cs = append(cs, fw.Mk(fmt.Sprintf("len-sample-%d", i), c05Params{Mode: "len", Lo: -2, N: 1 << 17}))
		}
	}
	cs = append(cs, fw.Mk("readpacket-boundaries", c05Params{Mode: "readpkt", Big: tier == "thorough"}))
	cparts := 8
	for i := 0; i < cparts; i++ {
		cs = append(cs, fw.Mk(fmt.Sprintf("connect-options-%d", i), c05Params{Mode: "connect", Part: i, Of: cparts}))
	}
	np := 6
	nrand := 60
	if tier == "thorough" {
		nrand = 12000
	}
	for i := 0; i < np; i++ {
		cs = append(cs, fw.Mk(fmt.Sprintf("publish-boundaries-%d", i), c05Params{Mode: "publish", Part: i, Of: np, N: nrand}))
	}
	for i := 0; i < 4; i++ {
		cs = append(cs, fw.Mk(fmt.Sprintf("subscribe-lists-%d", i), c05Params{Mode: "subs", N: nrand * 2}))
		cs = append(cs, fw.Mk(fmt.Sprintf("inbound-publish-%d", i), c05Params{Mode: "inbound", Part: i, Of: 4, N: nrand}))
	}
	cs = append(cs, fw.Mk("rejection", c05Params{Mode: "reject", N: nrand}))
	for i := 0; i < 4; i++ {
		cs = append(cs, fw.Mk(fmt.Sprintf("retransmissions-wellformed-%d", i), c05Params{Mode: "hygiene", N: nrand / 2, Part: i}))
	}
	return cs
}

type zeroReader struct {
	hdr []byte
	n   int
}

func (z *zeroReader) Read(p []byte) (int, error) {
	if len(z.hdr) > 0 {
		n := copy(p, z.hdr)
		z.hdr = z.hdr[n:]
		return n, nil
	}
	if z.n == 0 {
		return 0, io.EOF
	}
	n := len(p)
	if n > z.n {
		n = z.n
	}
	for i := 0; i < n; i++ {
		p[i] = 0
	}
	z.n -= n
	return n, nil
}

func c05Run(c fw.Case, env *fw.Env) fw.Result {
	var p c05Params
	fw.Params(c, &p)
	rng := env.Rng(c)
	r := fw.Result{Counters: map[string]int{}}
	fail := func(sig, f string, a ...interface{}) fw.Result {
		r.Verdict = fw.Violated
		r.Sig = sig
		r.Detail = fmt.Sprintf(f, a...)
		return r
	}
	checkLen := func(n int) string {
		got := mqtt.VerifRemainingLength(n)
		want := mqttref.EncodeLen(n)
		if !bytes.Equal(got, want) {
			return fmt.Sprintf("remainingLength(%d) = %x, minimal MQTT encoding is %x", n, got, want)
		}
		v, used, min, err := mqttref.DecodeLen(got)
		if err != nil || v != n || used != len(got) || !min {
			return fmt.Sprintf("remainingLength(%d) = %x does not decode back (v=%d used=%d minimal=%v err=%v)", n, got, v, used, min, err)
		}
		return ""
	}
	switch p.Mode {
	case "len":
		switch {
		case p.Lo == -1:
			for _, b := range lenBoundaries {
				for d := -300; d <= 300; d++ {
					n := b + d
					if n < 0 || n > mqttref.MaxRemaining {
						continue
					}
					if s := checkLen(n); s != "" {
						return fail("length-encoding", "%s", s)
					}
					r.NT = append(r.NT, fmt.Sprintf("len:%d", n))
				}
			}
			r.Evals = len(r.NT)
			r.Sample = map[string]interface{}{"mode": "length-codec boundaries", "around": lenBoundaries}
		case p.Lo == -2:
			for i := 0; i < p.N; i++ {
				n := rng.Intn(mqttref.MaxRemaining + 1)
				if s := checkLen(n); s != "" {
					return fail("length-encoding", "%s", s)
				}
			}
			r.NTCount = p.N
			r.Evals = p.N
		default:
			for n := p.Lo; n <= p.Hi; n++ {
				if s := checkLen(n); s != "" {
					return fail("length-encoding", "%s", s)
				}
			}
			r.NTCount = p.Hi - p.Lo + 1
			r.Evals = r.NTCount
			r.Counters["lengths_exhaustive"] = r.NTCount
			r.Sample = map[string]interface{}{"mode": "length-codec exhaustive range", "lo": p.Lo, "hi": p.Hi}
		}
	case "readpkt":
		// the decoder side of the length codec: header written by the reference encoder
		for _, n := range lenBoundaries {
			if n > 3000000 && !(p.Big && n == mqttref.MaxRemaining) {
				continue
			}
			hdr := append([]byte{0x30}, mqttref.EncodeLen(n)...)
			t, f, body, err := mqtt.VerifReadPacket(&zeroReader{hdr: hdr, n: n})
			if err != nil || t != 0x30 || f != 0 || len(body) != n {
				return fail("length-decoding", "readPacket on a %d-byte body: type=%x flag=%x len=%d err=%v", n, t, f, len(body), err)
			}
			r.NT = append(r.NT, fmt.Sprintf("rp:%d", n))
		}
		r.Evals = len(r.NT)
	case "connect":
		return c05Connect(p, r, fail)
	case "publish":
		return c05Publish(p, rng, r, fail)
	case "subs":
		return c05Subs(p, rng, r, fail)
	case "inbound":
		return c05Inbound(p, rng, r, fail)
	case "reject":
		return c05Reject(p, rng, r, fail)
	case "hygiene":
		// every packet a reconnecting client writes in faulty runs (retransmissions with DUP, PUBREL, PUBACK/PUBREC/
		// PUBCOMP for inbound traffic, re-subscriptions, DISCONNECT) decodes strictly; the stream can always be framed
		wl := []string{"mixed", "preset", "in1", "subs5", "q2mix", "outage", "subs1", "q2sub"}
		// systematic part (every single cut of 4 kinds at every request packet): caller-set ids/flags incl. retained
		// messages ("preset"), and subscriptions against a broker that grants less and forgets the session
		systematic := []retryParams{
			{W: "preset", Cfg: scen.BrokerCfg{Method: "A", Session: "keep"}, Mode: "single"},
			{W: "subs5", Cfg: scen.BrokerCfg{Method: "A", Session: "lose", Grant: "low"}, Mode: "single"},
			{W: "preset", Cfg: scen.BrokerCfg{Method: "B", Session: "lose"}, Client: "retry", Mode: "single"},
			{W: "resub", Cfg: scen.BrokerCfg{Method: "A", Session: "lose", Grant: "low"}, Always: true, Mode: "single"},
		}
		for i := -1; i < p.N; i++ {
			var rp retryParams
			if i < 0 {
				rp = systematic[p.Part%len(systematic)]
			} else {
				rp = retryParams{W: wl[(i+p.Part)%len(wl)], Cfg: scen.BrokerCfg{Method: []string{"A", "B"}[i%2], Session: []string{"keep", "lose"}[(i/2)%2], Echo: i%3 == 0, Grant: []string{"", "low"}[(i/4)%2]}, Always: i%5 == 0, Chunk: []int{0, 1, 3}[i%3], Client: []string{"", "", "retry"}[i%3], Mode: "random", N: 1}
			}
			for _, sc := range rp.scenarios(rng) {
				sc := sc
				run := scen.Exec(&sc)
				r.Evals++
				if run.Inconcl != "" {
					r.Counters["inconclusive_runs"]++
					continue
				}
				a := scen.Analyse(run)
				for _, f := range a.Hygiene() {
					if f.Sig == "protocol-error" {
						continue // C09's business
					}
					return fail("malformed-packet", "%s: %s\nworkload=%s faults=%v", f.Sig, f.Detail, rp.W, sc.Faults)
				}
				if d, nchk := fieldFidelity(run); d != "" {
					return fail("retransmitted-or-restored-packet-differs-from-request", "%s\nworkload=%s cfg=%+v faults=%v", d, rp.W, sc.Cfg, sc.Faults)
				} else {
					r.Counters["request_packets_compared_with_the_application_request"] += nchk
				}
				n := 0
				for _, e := range a.Ev {
					if e.Kind == memnet.KWrite {
						n++
					}
				}
				r.Counters["packets_decoded_in_faulty_runs"] += n
				r.NT = append(r.NT, fw.Hash("hyg", rp.W, a.FaultShape(), i, p.Part))
			}
		}
		r.Sample = map[string]interface{}{"mode": "hygiene", "workloads": wl, "runs": p.N}
		return r
	}
	return r
}

type failFn func(sig, f string, a ...interface{}) fw.Result

// firstWrite returns the n-th write event of packet type t.
func writesOf(tr *memnet.Trace, t int) []memnet.Event {
	var out []memnet.Event
	for _, e := range tr.Snapshot() {
		if e.Kind == memnet.KWrite && e.Pkt != nil && e.Pkt.Type == t {
			out = append(out, e)
		}
	}
	return out
}

func anyMalformedWrite(tr *memnet.Trace) *memnet.Event {
	for _, e := range tr.Snapshot() {
		if e.Kind == memnet.KWrite && (e.Mal != "" || e.Pkt == nil) {
			ee := e
			return &ee
		}
	}
	for _, s := range tr.Online {
		return &memnet.Event{Kind: memnet.KNote, S: s, Mal: s}
	}
	return nil
}

func c05Connect(p c05Params, r fw.Result, fail failFn) fw.Result {
	type will struct {
		on     bool
		qos    mqtt.QoS
		retain bool
		pl     []byte
	}
	var wills []will
	wills = append(wills, will{})
	for q := 0; q < 3; q++ {
		for _, ret := range []bool{false, true} {
			wills = append(wills, will{true, mqtt.QoS(q), ret, []byte(fmt.Sprintf("w%d", q))}, will{true, mqtt.QoS(q), ret, nil})
		}
	}
	creds := [][2]string{{"", ""}, {"user", ""}, {"user", "pass"}, {"ユーザ", "p\x00w"}, {strings.Repeat("u", 300), strings.Repeat("p", 70000%65536)}}
	kas := []uint16{0, 1, 60, 65535}
	ids := []string{"", "c", "client-é", strings.Repeat("i", 200)}
	n := 0
	for _, w := range wills {
		for _, cr := range creds {
			for _, ka := range kas {
				for _, clean := range []bool{false, true} {
					for _, lvl := range []int{0, 3, 4} {
						for _, id := range ids {
							n++
							if n%p.Of != p.Part {
								continue
							}
							tr := memnet.NewTrace()
							peer := &scen.Script{Tr: tr, AutoConnack: true}
							cli, _ := scen.NewBase(tr, peer)
							var opts []mqtt.ConnectOption
							var desc []string
							if w.on {
								opts = append(opts, mqtt.WithWill(&mqtt.Message{Topic: "will/t", Payload: w.pl, QoS: w.qos, Retain: w.retain}))
								desc = append(desc, fmt.Sprintf("will(q%d,ret=%v,len=%d)", w.qos, w.retain, len(w.pl)))
							}
							if cr[0] != "" {
								opts = append(opts, mqtt.WithUserNamePassword(cr[0], cr[1]))
								desc = append(desc, fmt.Sprintf("cred(%d,%d)", len(cr[0]), len(cr[1])))
							}
							opts = append(opts, mqtt.WithKeepAlive(ka), mqtt.WithCleanSession(clean))
							wantLvl := byte(4)
							if lvl != 0 {
								opts = append(opts, mqtt.WithProtocolLevel(mqtt.ProtocolLevel(lvl)))
								wantLvl = byte(lvl)
							}
							ctx, cancel := context.WithTimeout(context.Background(), scen.Watchdog)
							_, err := cli.Connect(ctx, id, opts...)
							cancel()
							if err != nil {
								cli.Close()
								return fail("connect-failed", "Connect(%q,%v) failed against an accepting peer: %v", id, desc, err)
							}
							cli.Close()
							ws := writesOf(tr, mqttref.CONNECT)
							if bad := anyMalformedWrite(tr); bad != nil {
								return fail("malformed-connect", "options %v id=%q: client wrote %v", desc, id, *bad)
							}
							if len(ws) != 1 {
								return fail("connect-count", "options %v: %d CONNECT packets written", desc, len(ws))
							}
							k := ws[0].Pkt
							okWill := k.HasWill == w.on && (!w.on || (k.WillTopic == "will/t" && bytes.Equal(k.WillPayload, w.pl) && k.WillQoS == byte(w.qos) && k.WillRetain == w.retain))
							okCred := k.HasUser == (cr[0] != "") && k.UserName == cr[0] && k.HasPass == (cr[1] != "") && k.Password == cr[1]
							if !okWill || !okCred || k.KeepAlive != ka || k.CleanSession != clean || k.ProtoLevel != wantLvl || k.ClientID != id {
								return fail("connect-fields", "options %v id=%q ka=%d clean=%v lvl=%d: decoded CONNECT %+v", desc, id, ka, clean, wantLvl, *k)
							}
							r.NT = append(r.NT, fw.Hash("conn", desc, id, ka, clean, lvl))
							if r.Sample == nil {
								r.Sample = map[string]interface{}{"mode": "connect", "options": desc, "client_id": id, "decoded": k.String()}
							}
						}
					}
				}
			}
		}
	}
	r.Evals = len(r.NT)
	return r
}

// publish payload lengths that put the remaining length on both sides of every boundary
func pubLens(topicLen int, qos int) []int {
	var out []int
	over := 2 + topicLen
	if qos > 0 {
		over += 2
	}
	for _, b := range []int{0, 127, 128, 16383, 16384, 2097151, 2097152} {
		for d := -1; d <= 1; d++ {
			if n := b + d - over; n >= 0 {
				out = append(out, n)
			}
		}
	}
	return out
}

func c05Publish(p c05Params, rng *rand.Rand, r fw.Result, fail failFn) fw.Result {
	tr := memnet.NewTrace()
	peer := &scen.Script{Tr: tr, AutoConnack: true, AutoAck: true, AutoPing: true}
	cli, _ := scen.NewBase(tr, peer)
	if err := scen.ConnectBase(cli); err != nil {
		r.Verdict = fw.Inconclusive
		r.Detail = err.Error()
		return r
	}
	defer cli.Close()
	type tc struct {
		topic  string
		pl     int
		qos    int
		retain bool
		id     uint16
		dup    bool
	}
	var cases []tc
	topics := []string{"a", "t/é/日本", strings.Repeat("x", 125), strings.Repeat("y", 65535)}
	n := 0
	for _, tp := range topics {
		for q := 0; q < 3; q++ {
			for _, pl := range pubLens(len(tp), q) {
				n++
				if n%p.Of != p.Part {
					continue
				}
				cases = append(cases, tc{tp, pl, q, n%2 == 0, []uint16{0, 1, 0xFFFF, 0x1234}[n%4], n%3 == 0})
			}
		}
	}
	for i := 0; i < p.N; i++ {
		cases = append(cases, tc{topics[rng.Intn(3)] + fmt.Sprint(i), rng.Intn(300), rng.Intn(3), rng.Intn(2) == 0, uint16(rng.Intn(3) * rng.Intn(65536)), rng.Intn(2) == 0})
	}
	for _, k := range cases {
		pl := make([]byte, k.pl)
		if k.pl < 4096 {
			rng.Read(pl)
		} else {
			pl[0], pl[k.pl-1] = 0xAB, 0xCD
		}
		msg := &mqtt.Message{Topic: k.topic, Payload: pl, QoS: mqtt.QoS(k.qos), Retain: k.retain, ID: k.id, Dup: k.dup}
		before := tr.Len()
		ctx, cancel := context.WithTimeout(context.Background(), scen.Watchdog)
		err := cli.Publish(ctx, msg)
		cancel()
		if err != nil {
			return fail("publish-failed", "Publish(topic len %d, payload %d, q%d) failed against an acknowledging peer: %v", len(k.topic), k.pl, k.qos, err)
		}
		var pubs []memnet.Event
		for _, e := range tr.Snapshot()[before:] {
			if e.Kind != memnet.KWrite {
				continue
			}
			if e.Mal != "" || e.Pkt == nil {
				return fail("malformed-packet", "publishing (topic len %d, payload %d, q%d): client wrote %v", len(k.topic), k.pl, k.qos, e)
			}
			if e.Pkt.Type == mqttref.PUBLISH {
				pubs = append(pubs, e)
			}
		}
		if len(pubs) != 1 {
			return fail("publish-count", "one Publish call produced %d PUBLISH packets", len(pubs))
		}
		g := pubs[0].Pkt
		wantLen := 2 + len(k.topic) + k.pl
		if k.qos > 0 {
			wantLen += 2
		}
		if g.Topic != k.topic || !bytes.Equal(g.Payload, pl) || int(g.QoS) != k.qos || g.Retain != k.retain || g.Dup {
			return fail("publish-fields", "asked topic len %d payload %d q%d retain=%v (Dup preset %v): wire has %v (first transmission must have DUP=0)", len(k.topic), k.pl, k.qos, k.retain, k.dup, g)
		}
		if g.Size != 1+len(mqttref.EncodeLen(wantLen))+wantLen {
			return fail("publish-length", "remaining length %d expected, packet size %d", wantLen, g.Size)
		}
		if k.qos > 0 {
			if g.ID == 0 || (k.id != 0 && g.ID != k.id) {
				return fail("publish-id", "preset id %d, wire id %d (q%d)", k.id, g.ID, k.qos)
			}
			if msg.ID != g.ID {
				return fail("publish-id", "Message.ID written back %d, wire id %d", msg.ID, g.ID)
			}
		}
		r.NT = append(r.NT, fw.Hash("pub", len(k.topic), k.pl, k.qos, k.retain, k.id != 0, k.dup))
		if r.Sample == nil {
			r.Sample = map[string]interface{}{"mode": "publish", "topic_len": len(k.topic), "payload_len": k.pl, "qos": k.qos, "decoded_size": g.Size, "len_field_bytes": g.LenLen}
		}
		r.Counters[fmt.Sprintf("publish_lenfield_%d_bytes", g.LenLen)]++
	}
	r.Evals = len(cases)
	return r
}

func c05Subs(p c05Params, rng *rand.Rand, r fw.Result, fail failFn) fw.Result {
	tr := memnet.NewTrace()
	peer := &scen.Script{Tr: tr, AutoConnack: true, AutoAck: true}
	cli, _ := scen.NewBase(tr, peer)
	if err := scen.ConnectBase(cli); err != nil {
		r.Verdict = fw.Inconclusive
		r.Detail = err.Error()
		return r
	}
	defer cli.Close()
	fl := []string{"a", "a/+", "#", "a/b/#", "é/+/日本", strings.Repeat("f", 300), "+", "x/y/z"}
	for i := 0; i < p.N; i++ {
		n := 1 + rng.Intn(8)
		var subs []mqtt.Subscription
		var names []string
		for j := 0; j < n; j++ {
			f := fl[rng.Intn(len(fl))]
			subs = append(subs, mqtt.Subscription{Topic: f, QoS: mqtt.QoS(rng.Intn(3))})
			names = append(names, f)
		}
		want := append([]mqtt.Subscription{}, subs...)
		before := tr.Len()
		ctx, cancel := context.WithTimeout(context.Background(), scen.Watchdog)
		var err error
		isSub := i%2 == 0
		if isSub {
			_, err = cli.Subscribe(ctx, subs...)
		} else {
			err = cli.Unsubscribe(ctx, names...)
		}
		cancel()
		var pk *mqttref.Packet
		for _, e := range tr.Snapshot()[before:] {
			if e.Kind == memnet.KWrite {
				if e.Mal != "" || e.Pkt == nil {
					return fail("malformed-packet", "request %v: client wrote %v", want, e)
				}
				if pk != nil {
					return fail("extra-packet", "one request produced several packets: %v and %v", pk, e.Pkt)
				}
				pk = e.Pkt
			}
		}
		if err != nil {
			return fail("request-failed", "request %v failed against an acknowledging peer: %v (wire %v)", want, err, pk)
		}
		if pk == nil || pk.ID == 0 {
			return fail("sub-id", "request %v: wire %v", want, pk)
		}
		if isSub {
			if pk.Type != mqttref.SUBSCRIBE || len(pk.Subs) != len(want) {
				return fail("subscribe-fields", "Subscribe(%v): wire %v", want, pk)
			}
			for j := range want {
				if pk.Subs[j].Filter != want[j].Topic || pk.Subs[j].QoS != byte(want[j].QoS) {
					return fail("subscribe-fields", "Subscribe(%v): entry %d on the wire is %v", want, j, pk.Subs[j])
				}
			}
			r.Counters["subscribe_multi"] += btoi(len(want) > 1)
		} else {
			if pk.Type != mqttref.UNSUBSCRIBE || strings.Join(pk.Filters, "\x00") != strings.Join(names, "\x00") {
				return fail("unsubscribe-fields", "Unsubscribe(%q): wire %v", names, pk)
			}
		}
		r.NT = append(r.NT, fw.Hash("sub", isSub, want))
		if r.Sample == nil {
			r.Sample = map[string]interface{}{"mode": "subscribe", "request": fmt.Sprint(want), "decoded": pk.String()}
		}
	}
	r.Evals = p.N
	return r
}

func btoi(b bool) int {
	if b {
		return 1
	}
	return 0
}

func c05Inbound(p c05Params, rng *rand.Rand, r fw.Result, fail failFn) fw.Result {
	tr := memnet.NewTrace()
	peer := &scen.Script{Tr: tr, AutoConnack: true, AutoPing: true}
	cli, conn := scen.NewBase(tr, peer)
	conn.Chunk = []int{0, 1, 5, 4096}[p.Part%4]
	var got []*mqtt.Message
	cli.Handle(mqtt.HandlerFunc(func(m *mqtt.Message) { got = append(got, m) }))
	if err := scen.ConnectBase(cli); err != nil {
		r.Verdict = fw.Inconclusive
		r.Detail = err.Error()
		return r
	}
	defer cli.Close()
	type tc struct {
		topic       string
		pl, qos     int
		retain, dup bool
		id          uint16
	}
	var cases []tc
	topics := []string{"a", "t/é/日本", strings.Repeat("x", 125)}
	n := 0
	for _, tp := range topics {
		for q := 0; q < 2; q++ { // q2 hand-over needs PUBREL: covered by C04; content path is the same parser
			for _, pl := range pubLens(len(tp), q) {
				n++
				if n%p.Of != p.Part {
					continue
				}
				if conn.Chunk == 1 && pl > 70000 {
					continue // byte-wise reads of 2 MiB bodies add time, not coverage
				}
				cases = append(cases, tc{tp, pl, q, n%2 == 0, q > 0 && n%3 == 0, uint16(1 + n%65535)})
			}
		}
	}
	for i := 0; i < p.N; i++ {
		q := rng.Intn(3) // QoS 2: the message waits inside the client for its PUBREL while other packets arrive
		cases = append(cases, tc{topics[rng.Intn(3)], rng.Intn(400), q, rng.Intn(2) == 0, q > 0 && rng.Intn(2) == 0, uint16(1 + rng.Intn(65535))})
	}
	// what the handler was given must stay what it was given: later packets must not show through
	type keptMsg struct {
		m    *mqtt.Message
		want msgSnap
	}
	var kept []keptMsg
	recheck := func() *fw.Result {
		for _, km := range kept {
			if now := snapMsg(km.m); !now.eq(km.want) {
				rr := fail("delivered-message-changed-later", "a message the handler had been given as %v reads %v after later packets were received", km.want, now)
				return &rr
			}
		}
		return nil
	}
	for ci, k := range cases {
		pl := make([]byte, k.pl)
		if k.pl < 4096 {
			rng.Read(pl)
		} else {
			pl[0], pl[k.pl-1] = 0xAB, 0xCD
		}
		got = nil
		conn.Send(mqttref.EncPublish(k.topic, pl, byte(k.qos), k.dup, k.retain, k.id), "")
		if k.qos == 2 {
			// another small message overtakes it before the PUBREL
			conn.Send(mqttref.EncPublish("interleaved/topic", []byte("INTERLEAVED-PAYLOAD-INTERLEAVED-PAYLOAD"), 0, false, false, 0), "")
			conn.Send(mqttref.EncRaw(byte(mqttref.PUBREL<<4|2), []byte{byte(k.id >> 8), byte(k.id)}), "")
		}
		if err := scen.Barrier(cli); err != nil {
			return fail("link-ended-on-wellformed-input", "inbound PUBLISH (topic len %d, payload %d, q%d) ended the connection: %v / Err=%v", len(k.topic), k.pl, k.qos, err, cli.Err())
		}
		if k.qos == 2 {
			if len(got) != 2 || got[0].Topic != "interleaved/topic" {
				return fail("inbound-handover-count", "inbound QoS 2 PUBLISH + QoS 0 PUBLISH + PUBREL: %d hand-overs", len(got))
			}
			got = got[1:]
		}
		if len(got) != 1 {
			return fail("inbound-handover-count", "inbound PUBLISH (payload %d, q%d) handed over %d times", k.pl, k.qos, len(got))
		}
		m := got[0]
		wantID := uint16(0)
		if k.qos > 0 {
			wantID = k.id
		}
		if m.Topic != k.topic || !bytes.Equal(m.Payload, pl) || int(m.QoS) != k.qos || m.Retain != k.retain || m.Dup != k.dup || m.ID != wantID {
			return fail("inbound-fields", "sent topic len %d payload %d q%d retain=%v dup=%v id=%d; handler got topic len %d payload %d q%d retain=%v dup=%v id=%d",
				len(k.topic), k.pl, k.qos, k.retain, k.dup, wantID, len(m.Topic), len(m.Payload), m.QoS, m.Retain, m.Dup, m.ID)
		}
		if k.pl < 4096 && len(kept) < 400 {
			kept = append(kept, keptMsg{m, snapMsg(m)})
		}
		if ci%50 == 49 {
			if rr := recheck(); rr != nil {
				return *rr
			}
		}
		r.NT = append(r.NT, fw.Hash("in", len(k.topic), k.pl, k.qos, k.retain, k.dup, conn.Chunk))
		if r.Sample == nil {
			r.Sample = map[string]interface{}{"mode": "inbound", "topic_len": len(k.topic), "payload_len": k.pl, "qos": k.qos, "read_chunk": conn.Chunk}
		}
	}
	if rr := recheck(); rr != nil {
		return *rr
	}
	r.Counters["delivered_messages_rechecked_after_later_packets"] += len(kept)
	r.Evals = len(cases)
	return r
}

func c05Reject(p c05Params, rng *rand.Rand, r fw.Result, fail failFn) fw.Result {
	// BaseClient and RetryClient: QoS>2 and payloads over MaxPayloadLen are rejected, nothing is written.
	for i := 0; i < p.N+40; i++ {
		tr := memnet.NewTrace()
		peer := &scen.Script{Tr: tr, AutoConnack: true, AutoAck: true, AutoPing: true}
		cli, _ := scen.NewBase(tr, peer)
		max := []int{0, 1, 10, 1000}[i%4]
		cli.MaxPayloadLen = max
		useRetry := i%2 == 1
		var rc *mqtt.RetryClient
		if useRetry {
			rc = &mqtt.RetryClient{}
			rc.SetClient(context.Background(), cli)
			if _, err := rc.Connect(context.Background(), "verif"); err != nil {
				r.Verdict = fw.Inconclusive
				r.Detail = err.Error()
				return r
			}
		} else if err := scen.ConnectBase(cli); err != nil {
			r.Verdict = fw.Inconclusive
			r.Detail = err.Error()
			return r
		}
		qos := []int{0, 1, 2, 3, 4, 0x80, 255}[rng.Intn(7)]
		pl := 0
		if max > 0 {
			pl = []int{0, max - 1, max + 1, max + 1 + rng.Intn(50), max * 2}[rng.Intn(5)]
		} else {
			pl = rng.Intn(50)
		}
		if pl < 0 {
			pl = 0
		}
		badQoS := qos > 2
		over := max > 0 && pl > max
		under := max == 0 || pl < max
		msg := &mqtt.Message{Topic: "r/t", Payload: make([]byte, pl), QoS: mqtt.QoS(qos)}
		before := tr.Len()
		ctx, cancel := context.WithTimeout(context.Background(), scen.Watchdog)
		var err error
		if useRetry {
			err = rc.Publish(ctx, msg)
			// flush the queue: a valid sentinel after it must be the next PUBLISH on the wire
			if err2 := rc.Publish(ctx, &mqtt.Message{Topic: "r/sentinel", QoS: mqtt.QoS1}); err2 != nil {
				cancel()
				return fail("harness", "sentinel publish: %v", err2)
			}
			tr.WaitFor(scen.Watchdog, func() bool {
				for _, e := range tr.Events[before:] {
					if e.Kind == memnet.KConsumed && e.Pkt != nil && e.Pkt.Type == mqttref.PUBACK {
						return true
					}
				}
				return false
			})
		} else {
			err = cli.Publish(ctx, msg)
		}
		cancel()
		wrote := 0
		for _, e := range tr.Snapshot()[before:] {
			if e.Kind == memnet.KWrite && e.Pkt != nil && e.Pkt.Type == mqttref.PUBLISH && e.Pkt.Topic == "r/t" {
				wrote++
			}
			if e.Kind == memnet.KWrite && (e.Mal != "" || e.Pkt == nil) {
				cli.Close()
				return fail("malformed-packet", "client wrote %v", e)
			}
		}
		cli.Close()
		if badQoS || over {
			if err == nil || wrote != 0 {
				return fail("not-rejected", "Publish(q=%d, payload %d, MaxPayloadLen %d, retry=%v): err=%v, PUBLISH packets written=%d", qos, pl, max, useRetry, err, wrote)
			}
			if badQoS && !over && !errors.Is(err, mqtt.ErrInvalidQoS) {
				return fail("reject-cause", "QoS %d rejected with %v, not ErrInvalidQoS", qos, err)
			}
			if over && !badQoS && !errors.Is(err, mqtt.ErrPayloadLenExceeded) {
				return fail("reject-cause", "payload %d > max %d rejected with %v, not ErrPayloadLenExceeded", pl, max, err)
			}
			r.Counters["rejected"]++
			r.NT = append(r.NT, fw.Hash("rej", qos, pl, max, useRetry))
		} else if under {
			if err != nil || wrote != 1 {
				return fail("valid-message-not-sent", "Publish(q=%d, payload %d, MaxPayloadLen %d, retry=%v): err=%v, written=%d", qos, pl, max, useRetry, err, wrote)
			}
			r.Counters["accepted"]++
		}
		if r.Sample == nil {
			r.Sample = map[string]interface{}{"mode": "reject", "qos": qos, "payload": pl, "max": max, "retry_client": useRetry, "err": scen.ErrStr(err)}
		}
		time.Sleep(0)
	}
	r.Evals = p.N + 40
	return r
}

func init() {
	fw.Register(&fw.Prop{
		ID:    "C05",
		Level: "exploration",
		Rule: "length codec: library remainingLength(n) vs independent minimal encoder and decoder for every n in 0..268435455 (thorough: exhaustive in 64 ranges; quick: +-300 around every boundary and 2^20 seeded samples), readPacket on reference-encoded headers at every boundary; " +
			"outbound: all combinations of will(q0-2 x retain x empty payload), credentials, keep-alive, clean, protocol level, client id; PUBLISH with remaining length on both sides of 0/127/128/16383/16384/2097151/2097152, all QoS/retain, preset/auto ids, preset Dup; " +
			"random SUBSCRIBE/UNSUBSCRIBE lists of 1-8 entries; every write attempt is decoded by an independent strict MQTT 3.1.1 decoder and compared field by field. Inbound: reference-encoded PUBLISH at all boundaries/flags with read chunking -> Message given to the handler. " +
			"Faulty reconnecting runs: every packet written (retransmissions, PUBREL, acknowledgements of inbound traffic, re-subscriptions, DISCONNECT) decodes strictly and the stream always frames. Rejection: QoS>2 / payload over MaxPayloadLen on BaseClient and RetryClient -> error and no write. Non-trivial: distinct lengths / option sets / requests actually round-tripped.",
		Assumptions: []string{"requests MQTT 3.1.1 can express: valid UTF-8 without U+0000 (topics), strings <= 65535 bytes, non-empty filter lists, subscription QoS <= 2, password only with a user name",
			"len(payload)==MaxPayloadLen is also rejected by the library; the property speaks of payloads over the maximum, so it is not asserted either way",
			"ProtocolLevel 3 is sent with protocol name MQTT; accepted by the reference decoder"},
		Gen: c05Gen,
		Run: c05Run,
	})
}

// fieldFidelity compares every PUBLISH / SUBSCRIBE / UNSUBSCRIBE the client wrote in a run - first transmissions,
// retransmissions and re-subscriptions alike - with what the application asked for.
func fieldFidelity(run *scen.Run) (detail string, checked int) {
	pubs := map[string]scen.Step{}
	subEntries := map[string]bool{}
	unsubs := map[string]bool{}
	for _, s := range run.SubmSnapshot() {
		switch s.Step.Op {
		case "pub":
			pubs[s.Step.Tag] = s.Step
		case "sub":
			for _, x := range s.Step.Subs {
				subEntries[fmt.Sprintf("%s@%d", x.F, x.Q)] = true
			}
		case "unsub":
			unsubs[fmt.Sprint(s.Step.Filters)] = true
		}
	}
	// (DUP is the library's to set: 0 on a first transmission whatever the caller put there - C12 judges it)
	for _, e := range run.Tr.Snapshot() {
		if e.Kind != memnet.KWrite || e.Pkt == nil {
			continue
		}
		p := e.Pkt
		switch p.Type {
		case mqttref.PUBLISH:
			st, ok := pubs[string(p.Payload)]
			if !ok {
				return fmt.Sprintf("%v: a PUBLISH nobody asked for", e), checked
			}
			checked++
			if p.Topic != "t/"+st.Tag || p.QoS != st.QoS || p.Retain != st.Retain {
				return fmt.Sprintf("%v (connection %d): the application asked for topic %q QoS %d retain=%v", e, e.Conn, "t/"+st.Tag, st.QoS, st.Retain), checked
			}
			if st.ID != 0 && st.QoS > 0 && p.ID != st.ID {
				return fmt.Sprintf("%v: the application set identifier %d", e, st.ID), checked
			}
		case mqttref.SUBSCRIBE:
			for _, x := range p.Subs {
				checked++
				if !subEntries[fmt.Sprintf("%s@%d", x.Filter, x.QoS)] {
					return fmt.Sprintf("%v (connection %d): entry %s@%d was never requested by the application (requested: %v)", e, e.Conn, x.Filter, x.QoS, keysOf(subEntries)), checked
				}
			}
		case mqttref.UNSUBSCRIBE:
			checked++
			if !unsubs[fmt.Sprint(p.Filters)] {
				return fmt.Sprintf("%v: no Unsubscribe call with these filters", e), checked
			}
		}
	}
	return "", checked
}

func keysOf(m map[string]bool) []string {
	var out []string
	for k := range m {
		out = append(out, k)
	}
	sort.Strings(out)
	return out
}
