package checks

import (
	"context"
	"fmt"
	"math/rand"
	"sync"
	"time"

	mqtt "github.com/at-wat/mqtt-go"
	"verif/fw"
	"verif/memnet"
	"verif/mqttref"
	"verif/scen"
)

type c15Params struct {
	Mode  string `json:"mode"` // waves | laggard | retryid
	N     int    `json:"n"`
	Start uint32 `json:"start,omitempty"`
}

var c15Starts = []uint32{1, 0x7FFF, 0xFFF0, 0xFFF8, 0xFFFD, 0xFFFE, 0xFFFF, 0x10000, 0x1FFF0, 0x1FFFE, 0xFFFFFFF0, 0xFFFFFFFE}

func c15Gen(tier string, seed int64) []fw.Case {
	n := 12
	if tier == "thorough" {
		n = 1500
	}
	var cs []fw.Case
	for i, s := range c15Starts {
		cs = append(cs, fw.Mk(fmt.Sprintf("waves-start%#x-%d", s, i), c15Params{Mode: "waves", N: n, Start: s}))
		cs = append(cs, fw.Mk(fmt.Sprintf("waves-random-%d", i), c15Params{Mode: "waves", N: n}))
	}
	for i := 0; i < 16; i++ {
		cs = append(cs, fw.Mk(fmt.Sprintf("wrap-storm-%d", i), c15Params{Mode: "storm", N: n * 40}))
	}
	for i := 0; i < 4; i++ {
		cs = append(cs, fw.Mk(fmt.Sprintf("queued-preset-id-%d", i), c15Params{Mode: "retryid", N: n}))
	}
	for i := 0; i < 2; i++ {
		cs = append(cs, fw.Mk(fmt.Sprintf("retransmission-meets-fresh-request-%d", i), c15Params{Mode: "meet", N: scale(tier, 3, 60)}))
	}
	for i := 0; i < 2; i++ {
		cs = append(cs, fw.Mk(fmt.Sprintf("retry-handles-%d", i), c15Params{Mode: "handles", N: scale(tier, 12, 600)}))
	}
	cs = append(cs, fw.Mk("laggard-full-cycle", c15Params{Mode: "laggard"}))
	return cs
}

// c15Peer checks ids online (under the trace mutex): non-zero, and not equal to
// the id of any request it has not yet acknowledged on this connection.
type c15Peer struct {
	scen.Script
	outstanding map[uint16]string
	held        [][]byte // acks withheld
	rng         *rand.Rand
	holdAll     bool
	violation   string
	requests    int
	maxOut      int
	wrapSeen    bool
	lastID      uint16
	q2rel       map[uint16]bool
}

func (p *c15Peer) onPkt(c *memnet.Conn, pk *mqttref.Packet, raw []byte) bool {
	if pk == nil {
		return false
	}
	var ack []byte
	desc := ""
	switch pk.Type {
	case mqttref.PUBLISH:
		if pk.QoS == 0 {
			return false
		}
		desc = fmt.Sprintf("PUBLISH q%d %s", pk.QoS, pk.Topic)
		if pk.QoS == 1 {
			ack = mqttref.EncAck(mqttref.PUBACK, pk.ID)
		} else {
			ack = mqttref.EncAck(mqttref.PUBREC, pk.ID)
		}
	case mqttref.SUBSCRIBE:
		desc = "SUBSCRIBE " + pk.Subs[0].Filter
		ack = mqttref.EncSubAck(pk.ID, make([]byte, len(pk.Subs)))
	case mqttref.UNSUBSCRIBE:
		desc = "UNSUBSCRIBE " + pk.Filters[0]
		ack = mqttref.EncAck(mqttref.UNSUBACK, pk.ID)
	case mqttref.PUBREL:
		// second phase of a QoS 2 publish: the id stays outstanding until PUBCOMP
		c.SendLocked(mqttref.EncAck(mqttref.PUBCOMP, pk.ID), "")
		delete(p.outstanding, pk.ID)
		return false
	default:
		return false
	}
	p.requests++
	if pk.ID == 0 && p.violation == "" {
		p.violation = "zero-id|" + desc + " carries packet identifier 0"
	}
	if other, dup := p.outstanding[pk.ID]; dup && p.violation == "" {
		p.violation = fmt.Sprintf("id-reuse|identifier %d given to %q while %q with the same identifier is still unacknowledged (%d outstanding)", pk.ID, desc, other, len(p.outstanding))
	}
	if pk.ID < p.lastID && p.lastID > 0xFF00 && pk.ID < 0x100 {
		p.wrapSeen = true
	}
	p.lastID = pk.ID
	p.outstanding[pk.ID] = desc
	if len(p.outstanding) > p.maxOut {
		p.maxOut = len(p.outstanding)
	}
	release := func(a []byte, id uint16) {
		c.SendLocked(a, "")
		if !(len(a) > 0 && a[0]>>4 == mqttref.PUBREC) {
			delete(p.outstanding, id)
		}
	}
	if p.holdAll || p.rng.Intn(2) == 0 {
		p.held = append(p.held, ack)
	} else {
		release(ack, pk.ID)
	}
	return false
}

func (p *c15Peer) releaseAll(c *memnet.Conn) {
	p.Tr.Mu.Lock()
	defer p.Tr.Mu.Unlock()
	for _, a := range p.held {
		c.SendLocked(a, "")
		if a[0]>>4 != mqttref.PUBREC {
			id := uint16(a[2])<<8 | uint16(a[3])
			delete(p.outstanding, id)
		}
	}
	p.held = nil
}

func c15Run(c fw.Case, env *fw.Env) fw.Result {
	var p c15Params
	fw.Params(c, &p)
	rng := env.Rng(c)
	r := fw.Result{Counters: map[string]int{}}
	fail := func(sig, f string, a ...interface{}) fw.Result {
		r.Verdict = fw.Violated
		r.Sig = sig
		r.Detail = fmt.Sprintf(f, a...)
		return r
	}
	switch p.Mode {
	case "waves", "storm":
		for round := 0; round < p.N; round++ {
			tr := memnet.NewTrace()
			peer := &c15Peer{outstanding: map[uint16]string{}, rng: rand.New(rand.NewSource(rng.Int63())), q2rel: map[uint16]bool{}}
			peer.Tr = tr
			peer.AutoConnack = true
			peer.AutoPing = true
			peer.OnPkt = peer.onPkt
			peer.holdAll = rng.Intn(3) == 0
			cli, conn := scen.NewBase(tr, peer)
			if err := scen.ConnectBase(cli); err != nil {
				r.Verdict = fw.Inconclusive
				r.Detail = err.Error()
				return r
			}
			start := p.Start
			if start == 0 {
				start = uint32(rng.Intn(0x20000))
			}
			mqtt.VerifSetIDLast(cli, start)
			callers := 1 + rng.Intn(32)
			per := 1 + rng.Intn(3)
			gate := make(chan struct{})
			if p.Mode == "storm" {
				// many callers released at once right at the wrap-around of the counter
				callers, per = 16+rng.Intn(48), 1
				peer.holdAll = true
				start = uint32(0x10000*(1+rng.Intn(3))) - 1 - uint32(rng.Intn(callers))
				mqtt.VerifSetIDLast(cli, start)
			} else {
				close(gate)
			}
			// preset ids live far away from the counter region so that they cannot collide by the caller's own fault
			presetBase := uint16(start) + 0x4000
			var wg sync.WaitGroup
			var mu sync.Mutex
			var bad string
			ctx, cancel := context.WithTimeout(context.Background(), 3*scen.Watchdog)
			for g := 0; g < callers; g++ {
				wg.Add(1)
				go func(g int, seed int64) {
					defer wg.Done()
					lr := rand.New(rand.NewSource(seed))
					<-gate
					for k := 0; k < per; k++ {
						tag := fmt.Sprintf("c15/%d/%d", g, k)
						var err error
						switch lr.Intn(6) {
						case 0, 1:
							err = cli.Publish(ctx, &mqtt.Message{Topic: tag, QoS: mqtt.QoS1})
						case 2:
							err = cli.Publish(ctx, &mqtt.Message{Topic: tag, QoS: mqtt.QoS2})
						case 3:
							_, err = cli.Subscribe(ctx, mqtt.Subscription{Topic: tag})
						case 4:
							err = cli.Unsubscribe(ctx, tag)
						case 5:
							id := presetBase + uint16(g*4+k)
							if id == 0 {
								id = 1
							}
							// (an application re-sending a persisted message also brings its flags: DUP, retain)
							m := &mqtt.Message{Topic: tag, QoS: mqtt.QoS(1 + (g+k)%2), ID: id, Dup: (g+k)%3 == 0, Retain: k%2 == 0}
							err = cli.Publish(ctx, m)
							tr.Mu.Lock()
							found := false
							for _, ip := range peer.In {
								if ip.P != nil && ip.P.Type == mqttref.PUBLISH && ip.P.Topic == tag {
									found = true
									if ip.P.ID != id {
										mu.Lock()
										bad = fmt.Sprintf("preset-id-changed|message with caller-set identifier %d went out with identifier %d", id, ip.P.ID)
										mu.Unlock()
									}
								}
							}
							tr.Mu.Unlock()
							_ = found
						}
						if err != nil {
							mu.Lock()
							if bad == "" {
								bad = "request-failed|" + tag + ": " + err.Error()
							}
							mu.Unlock()
						}
					}
				}(g, rng.Int63())
			}
			if p.Mode == "storm" {
				close(gate)
			}
			// let the withheld acknowledgements go once all first requests are on the wire, repeatedly
			done := make(chan struct{})
			go func() { wg.Wait(); close(done) }()
			stuck := false
		loop:
			for i := 0; ; i++ {
				select {
				case <-done:
					break loop
				case <-time.After(200 * time.Microsecond):
					tr.Mu.Lock()
					nheld := len(peer.held)
					tr.Mu.Unlock()
					if nheld > 0 && (peer.holdAll && nheld >= callers || !peer.holdAll || i > 50) {
						peer.releaseAll(conn)
					}
					if i > 100000 {
						stuck = true
						break loop
					}
				}
			}
			cancel()
			cli.Close()
			tr.Mu.Lock()
			v := peer.violation
			reqs, maxOut, wrap := peer.requests, peer.maxOut, peer.wrapSeen
			tr.Mu.Unlock()
			if v != "" {
				i := indexOf(v, '|')
				r.Trace = tr.Dump(60)
				return fail(v[:i], "start=%#x callers=%d: %s", start, callers, v[i+1:])
			}
			mu.Lock()
			b := bad
			mu.Unlock()
			if b != "" {
				i := indexOf(b, '|')
				if b[:i] == "request-failed" || stuck {
					r.Verdict = fw.Inconclusive
					r.Detail = b
					return r
				}
				return fail(b[:i], "%s", b[i+1:])
			}
			r.Evals++
			r.Counters["requests"] += reqs
			if wrap {
				r.Counters["rounds_crossing_wraparound"]++
			}
			if maxOut >= 2 {
				r.NT = append(r.NT, fw.Hash(c.Idx, round, start, callers, maxOut))
				r.Counters["rounds_with_2plus_outstanding"]++
			}
			if r.Sample == nil {
				r.Sample = map[string]interface{}{"mode": "waves", "start_counter": start, "callers": callers, "requests": reqs, "max_outstanding": maxOut, "crossed_wraparound": wrap}
			}
		}
	case "handles":
		for round := 0; round < p.N; round++ {
			s, d := c15Handles(rng)
			if s == "inconclusive" {
				r.Counters["inconclusive_rounds"]++
				continue
			}
			if s != "" {
				return fail(s, "%s", d)
			}
			r.Evals++
			r.NT = append(r.NT, fw.Hash("handles", c.Idx, round))
		}
		r.Sample = map[string]interface{}{"mode": "retry handles: caller-set id on the same connection; re-sent subscribe/unsubscribe next to a fresh request", "rounds": p.N}
	case "meet":
		// A request interrupted on one connection is retransmitted (same identifier) through its retry handle on the
		// next connection, where a fresh request is outstanding. Identifiers start at a random point per connection,
		// so the two meet with probability 1/65535 per trial; meeting in 3 of 4 trials cannot be chance.
		for round := 0; round < p.N; round++ {
			meets, trials := 0, 0
			var last string
			for t := 0; t < 4; t++ {
				met, d, ok := c15Meet()
				if !ok {
					continue
				}
				trials++
				if met {
					meets++
					last = d
				}
			}
			if trials < 4 {
				r.Counters["inconclusive_rounds"]++
				continue
			}
			if meets >= 3 {
				return fail("id-reuse", "in %d of 4 trials the retransmission of a request from the previous connection and a fresh request outstanding on the new connection carried the same identifier (%s): identifiers do not start at independent points on successive connections", meets, last)
			}
			r.Evals++
			r.Counters["retransmission_meets_fresh_request_trials"] += trials
			r.NT = append(r.NT, fw.Hash("meet", c.Idx, round))
		}
		r.Sample = map[string]interface{}{"mode": "retransmission from the previous connection vs fresh request on the next", "rounds": p.N}
	case "retryid":
		// a QoS>0 message with a caller-set identifier queued behind a pending retry must keep its identifier
		for round := 0; round < p.N; round++ {
			if s, d := c15QueuedPreset(rng); s != "" {
				if s == "inconclusive" {
					r.Verdict = fw.Inconclusive
					r.Detail = d
					return r
				}
				return fail(s, "%s", d)
			}
			r.Evals++
			r.NT = append(r.NT, fw.Hash("retryid", c.Idx, round))
		}
		r.Sample = map[string]interface{}{"mode": "queued publish with caller-set id through RetryClient", "rounds": p.N}
	case "laggard":
		// one request stays unacknowledged while a full cycle of 65535+ identifiers is allocated
		tr := memnet.NewTrace()
		peer := &scen.Script{Tr: tr, AutoConnack: true}
		var lagID uint16
		var lagTopic = "c15/laggard"
		count := 0
		viol := ""
		peer.OnPkt = func(cn *memnet.Conn, pk *mqttref.Packet, raw []byte) bool {
			if pk == nil || pk.Type != mqttref.PUBLISH {
				return false
			}
			if pk.Topic == lagTopic {
				lagID = pk.ID
				return false // never acknowledged
			}
			count++
			if pk.ID == 0 && viol == "" {
				viol = "zero-id|identifier 0 on the wire"
			}
			if pk.ID == lagID && viol == "" {
				viol = fmt.Sprintf("id-reuse-laggard|identifier %d given to %q after %d further allocations while the first request with that identifier is still unacknowledged (2 outstanding)", pk.ID, pk.Topic, count)
			}
			cn.SendLocked(mqttref.EncAck(mqttref.PUBACK, pk.ID), "")
			return false
		}
		cli, _ := scen.NewBase(tr, peer)
		if err := scen.ConnectBase(cli); err != nil {
			r.Verdict = fw.Inconclusive
			r.Detail = err.Error()
			return r
		}
		ctx, cancel := context.WithCancel(context.Background())
		go cli.Publish(ctx, &mqtt.Message{Topic: lagTopic, QoS: mqtt.QoS1})
		if _, ok := peer.WaitIn(scen.Watchdog, 1, func(p *mqttref.Packet) bool { return p.Type == mqttref.PUBLISH }); !ok {
			cancel()
			r.Verdict = fw.Inconclusive
			return r
		}
		msg := &mqtt.Message{Topic: "c15/seq", QoS: mqtt.QoS1}
		for i := 0; i < 65600; i++ {
			msg.ID = 0
			if err := cli.Publish(ctx, msg); err != nil {
				cancel()
				r.Verdict = fw.Inconclusive
				r.Detail = err.Error()
				return r
			}
			if i%4096 == 0 {
				tr.Mu.Lock()
				tr.Events = tr.Events[:0] // keep memory flat; nothing reads this log
				peer.In = peer.In[:0]
				tr.Mu.Unlock()
			}
		}
		cancel()
		cli.Close()
		r.Evals = 65600
		r.NT = append(r.NT, "laggard-cycle", "laggard-cycle-completed")
		r.Counters["laggard_allocations"] = count
		if viol != "" {
			i := indexOf(viol, '|')
			return fail(viol[:i], "%s", viol[i+1:])
		}
	}
	return r
}

// c15QueuedPreset: RetryClient, first QoS1 publish loses its connection after
// the PUBLISH (so a retry is pending), then a publish with a caller-set id is
// queued behind it; after reconnect+Retry the second message must carry that id.
func c15QueuedPreset(rng *rand.Rand) (string, string) {
	tr := memnet.NewTrace()
	cut := true
	peer := &scen.Script{Tr: tr, AutoConnack: true}
	peer.OnPkt = func(cn *memnet.Conn, pk *mqttref.Packet, raw []byte) bool {
		if pk == nil {
			return false
		}
		if pk.Type == mqttref.PUBLISH && cut {
			cut = false
			cn.PeerCloseLocked("cut after first PUBLISH, acknowledgement lost")
			return false
		}
		if a := scen.AckFor(pk); a != nil {
			cn.SendLocked(a, "")
		}
		return false
	}
	rc := &mqtt.RetryClient{}
	ctx, cancel := context.WithTimeout(context.Background(), scen.Watchdog)
	defer cancel()
	cli1, conn1 := scen.NewBase(tr, peer)
	rc.SetClient(ctx, cli1)
	if _, err := rc.Connect(ctx, "verif"); err != nil {
		return "inconclusive", err.Error()
	}
	// half the time the first message carries a caller-set identifier as well: it must survive the
	// retransmission over the second client
	var id1 uint16
	if rng.Intn(2) == 0 {
		id1 = uint16(1 + rng.Intn(65535))
	}
	qos1 := mqtt.QoS(1 + rng.Intn(2))
	if err := rc.Publish(ctx, &mqtt.Message{Topic: "c15/first", QoS: qos1, ID: id1, Dup: id1%2 == 1, Payload: []byte("1")}); err != nil {
		return "inconclusive", err.Error()
	}
	// wait until the first request has failed into the retry queue
	if !tr.WaitFor(scen.Watchdog, func() bool { return conn1.LocalClosed }) {
		return "inconclusive", "first connection not closed"
	}
	select {
	case <-cli1.Done():
	case <-time.After(scen.Watchdog):
		return "inconclusive", "Done not closed"
	}
	ok := false
	for i := 0; i < 2000; i++ {
		if rc.Stats().QueuedRetries > 0 {
			ok = true
			break
		}
		time.Sleep(100 * time.Microsecond)
	}
	if !ok {
		return "inconclusive", "retry queue stayed empty"
	}
	id := uint16(1 + rng.Intn(65535))
	if id == id1 {
		id++
	}
	qos := mqtt.QoS(1 + rng.Intn(2))
	if err := rc.Publish(ctx, &mqtt.Message{Topic: "c15/preset", QoS: qos, ID: id, Dup: id%2 == 1, Payload: []byte("2")}); err != nil {
		return "inconclusive", err.Error()
	}
	cli2, _ := scen.NewBase(tr, peer)
	rc.SetClient(ctx, cli2)
	if _, err := rc.Connect(ctx, "verif"); err != nil {
		return "inconclusive", err.Error()
	}
	rc.Retry(ctx)
	in, got := peer.WaitIn(scen.Watchdog, 1, func(p *mqttref.Packet) bool { return p.Type == mqttref.PUBLISH && p.Topic == "c15/preset" })
	if id1 != 0 {
		// (the retransmission of the first message precedes the queued one on the wire)
		first, _ := peer.WaitIn(time.Millisecond, 2, func(p *mqttref.Packet) bool { return p.Type == mqttref.PUBLISH && p.Topic == "c15/first" })
		for n, f := range first {
			if f.P.ID != id1 {
				cli2.Close()
				return "preset-id-changed", fmt.Sprintf("QoS%d message with caller-set identifier %d: transmission #%d (connection %d) carried identifier %d", qos1, id1, n+1, f.Conn, f.P.ID)
			}
		}
		if got && len(first) < 2 {
			cli2.Close()
			return "inconclusive", "retransmission of the first message not seen (C01's concern)"
		}
	}
	cli2.Close()
	if !got {
		return "inconclusive", "queued publish never transmitted (C01's concern)"
	}
	if in[0].P.ID != id {
		return "preset-id-changed", fmt.Sprintf("QoS%d message queued behind a pending retry with caller-set identifier %d went out with identifier %d", qos, id, in[0].P.ID)
	}
	return "", ""
}

func init() {
	fw.Register(&fw.Prop{
		ID:    "C15",
		Level: "exploration",
		Rule: "waves: a BaseClient whose id counter is positioned (hook) at 1, 0x7FFF, 0xFFF0..0xFFFF, 0x10000, 0x1FFF0.., 0xFFFFFFF0.. or a seeded value; 1-32 concurrent callers x 1-3 requests of mixed kinds (publish q1/q2, subscribe, unsubscribe, caller-set ids); the peer withholds a seeded half (or all) of the acknowledgements " +
			"and checks online, under the transport mutex, that every identifier is non-zero and differs from every request it has not yet acknowledged (QoS2 ids stay outstanding until PUBCOMP); caller-set ids must appear unchanged, also for a message queued behind a retry in RetryClient. " +
			"laggard: one request kept unacknowledged while 65600 further requests are allocated and completed. Non-trivial: rounds with >=2 requests outstanding at once.",
		Assumptions: []string{"caller-set identifiers are chosen away from the counter region (a collision the caller itself creates is not the library's allocation)"},
		Gen:         c15Gen,
		Run:         c15Run,
	})
}

// c15Meet: one trial. Returns whether the retransmitted request and the fresh one carried the same identifier.
func c15Meet() (met bool, detail string, ok bool) {
	tr := memnet.NewTrace()
	peer := &scen.Script{Tr: tr, AutoConnack: true}
	ctx, cancel := context.WithTimeout(context.Background(), scen.Watchdog)
	defer cancel()
	cliA, connA := scen.NewBase(tr, peer)
	if err := scen.ConnectBase(cliA); err != nil {
		return false, "", false
	}
	res := make(chan error, 1)
	go func() {
		res <- cliA.Publish(ctx, &mqtt.Message{Topic: "c15/old", QoS: mqtt.QoS1, Payload: []byte("o")})
	}()
	in, seen := peer.WaitIn(scen.Watchdog, 1, func(p *mqttref.Packet) bool { return p.Type == mqttref.PUBLISH && p.Topic == "c15/old" })
	if !seen {
		return false, "", false
	}
	oldID := in[0].P.ID
	connA.PeerClose("interrupt")
	var herr error
	select {
	case herr = <-res:
	case <-time.After(scen.Watchdog):
		return false, "", false
	}
	rh, isRetry := herr.(mqtt.ErrorWithRetry)
	if !isRetry {
		return false, "", false
	}
	cliB, _ := scen.NewBase(tr, peer)
	defer cliB.Close()
	if err := scen.ConnectBase(cliB); err != nil {
		return false, "", false
	}
	go cliB.Publish(ctx, &mqtt.Message{Topic: "c15/fresh", QoS: mqtt.QoS1, Payload: []byte("f")})
	fin, seen := peer.WaitIn(scen.Watchdog, 1, func(p *mqttref.Packet) bool { return p.Type == mqttref.PUBLISH && p.Topic == "c15/fresh" })
	if !seen {
		return false, "", false
	}
	go rh.Retry(ctx, cliB)
	rin, seen := peer.WaitIn(scen.Watchdog, 2, func(p *mqttref.Packet) bool { return p.Type == mqttref.PUBLISH && p.Topic == "c15/old" })
	if !seen {
		return false, "", false
	}
	if rin[1].P.ID != oldID {
		return false, "", true // C12's business
	}
	return fin[0].P.ID == oldID, fmt.Sprintf("identifier %d", oldID), true
}

// c15Handles: identifiers of requests re-issued through their retry handles.
//   - same connection: a publish with a caller-set identifier whose context ends before the acknowledgement is
//     re-issued on the SAME, still healthy client: the caller's identifier goes out again, unchanged;
//   - next connection: a subscribe / unsubscribe interrupted on connection A is re-issued on connection B whose
//     counter stands right below A's identifier while a fresh publish (which therefore got exactly that identifier)
//     is outstanding: the re-issued request must not carry the identifier of the outstanding one.
func c15Handles(rng *rand.Rand) (string, string) {
	tr := memnet.NewTrace()
	peer := &scen.Script{Tr: tr, AutoConnack: true}
	ctx, cancel := context.WithTimeout(context.Background(), scen.Watchdog)
	defer cancel()
	cliA, connA := scen.NewBase(tr, peer)
	defer cliA.Close()
	if err := scen.ConnectBase(cliA); err != nil {
		return "inconclusive", err.Error()
	}
	if rng.Intn(2) == 0 {
		id := uint16(1 + rng.Intn(65535))
		qos := mqtt.QoS(1 + rng.Intn(2))
		sctx, scancel := context.WithTimeout(ctx, 2*time.Millisecond)
		err := cliA.Publish(sctx, &mqtt.Message{Topic: "c15/same", QoS: qos, ID: id, Payload: []byte("s")})
		scancel()
		rh, ok := err.(mqtt.ErrorWithRetry)
		if !ok {
			return "inconclusive", fmt.Sprintf("no retry handle: %v", err)
		}
		go rh.Retry(ctx, cliA)
		in, seen := peer.WaitIn(scen.Watchdog, 2, func(p *mqttref.Packet) bool { return p.Type == mqttref.PUBLISH && p.Topic == "c15/same" })
		if !seen {
			return "inconclusive", "re-issued publish not seen"
		}
		for n, ip := range in {
			if ip.P.ID != id {
				return "preset-id-changed", fmt.Sprintf("QoS%d publish with caller-set identifier %d, re-issued through its retry handle on the same connection after its context ended: transmission #%d carried identifier %d", qos, id, n+1, ip.P.ID)
			}
		}
		return "", ""
	}
	kind := rng.Intn(2)
	res := make(chan error, 1)
	want := mqttref.SUBSCRIBE
	go func() {
		if kind == 0 {
			_, err := cliA.Subscribe(ctx, mqtt.Subscription{Topic: "c15/sub", QoS: mqtt.QoS1})
			res <- err
		} else {
			res <- cliA.Unsubscribe(ctx, "c15/sub")
		}
	}()
	if kind == 1 {
		want = mqttref.UNSUBSCRIBE
	}
	in, seen := peer.WaitIn(scen.Watchdog, 1, func(p *mqttref.Packet) bool { return p.Type == want })
	if !seen {
		return "inconclusive", "request not seen"
	}
	oldID := in[0].P.ID
	if oldID < 2 {
		return "inconclusive", "identifier too small to position the next counter below it"
	}
	connA.PeerClose("interrupt")
	var herr error
	select {
	case herr = <-res:
	case <-time.After(scen.Watchdog):
		return "inconclusive", "interrupted request did not return"
	}
	rh, ok := herr.(mqtt.ErrorWithRetry)
	if !ok {
		return "inconclusive", fmt.Sprintf("no retry handle: %v", herr)
	}
	cliB, _ := scen.NewBase(tr, peer)
	defer cliB.Close()
	if err := scen.ConnectBase(cliB); err != nil {
		return "inconclusive", err.Error()
	}
	mqtt.VerifSetIDLast(cliB, uint32(oldID-1))
	go cliB.Publish(ctx, &mqtt.Message{Topic: "c15/fresh", QoS: mqtt.QoS1, Payload: []byte("f")})
	fin, seen := peer.WaitIn(scen.Watchdog, 1, func(p *mqttref.Packet) bool { return p.Type == mqttref.PUBLISH && p.Topic == "c15/fresh" })
	if !seen || fin[0].P.ID != oldID {
		return "inconclusive", "fresh request did not get the positioned identifier"
	}
	go rh.Retry(ctx, cliB)
	rin, seen := peer.WaitIn(scen.Watchdog, 2, func(p *mqttref.Packet) bool { return p.Type == want })
	if !seen {
		return "inconclusive", "re-issued request not seen"
	}
	if rin[1].P.ID == oldID {
		return "id-reuse", fmt.Sprintf("%s re-issued through its retry handle on the next connection carries identifier %d, which a fresh PUBLISH outstanding on that connection is using", mqttref.TypeName(want), oldID)
	}
	return "", ""
}
