package checks

import "verif/fw"

// ruleAdditions: what was added to a check after its rule text was first written (strengthening in response to
// seeded changes, DESIGN.md 8.2). Appended to the rule text that goes into the evidence files.
var ruleAdditions = map[string]string{
	"C01": " Added later: make-before-break client switches by the hand-written loops with requests in flight (sw1); fuzz mode (workload, configuration, client kind, transport behaviour and plan all drawn from the PRNG); transports returning net.Pipe/TCP-style errors after a local Close and a late-returning Close; API calls that never return wind the run up as certified stuck.",
	"C02": " Added later: messages accepted before the first connection exists (preq2); zero deliveries in a certified-stuck or live-locked run are a violation as well; make-before-break switches; fuzz mode.",
	"C03": " Added later: fuzz mode; single-filter Subscribe calls that a re-subscription can mimic are excluded from R2.",
	"C05": " Added later: in faulty runs of the retrying clients every PUBLISH/SUBSCRIBE/UNSUBSCRIBE written (retransmissions and re-subscriptions included) is compared with the application's request, also against a broker that grants one QoS level less than requested.",
	"C06": " Added later: hostile acknowledgements that match requests in flight (SUBACK vectors of any length/value incl. surplus codes, trailing bytes, reserved flags, truncated identifiers); failure and reserved SUBACK codes followed by session-less reconnects (the re-subscription must not bring the process down); pre-CONNACK streams.",
	"C07": " Added later: 1-4 calls cancelled while waiting; their acknowledgements arrive late, in the foreign phase, while later calls with other identifiers wait.",
	"C08": " Added later: fuzz mode.",
	"C09": " Added later: a connection that goes deaf for PINGREQ only (everything else still answered) must be given up by the keep-alive and replaced, checked after quiescence (the Connect context has been cancelled by then).",
	"C11": " Added later: late-acks (calls of every kind incl. two Pings cancelled while waiting, then every answer sent twice, then a fresh Ping and a connection-ending cause: Done must close, reader must exit) and switch-* (hand-driven RetryClient, SetClient make-before-break while a request completes on the replaced connection; Connect/Publish/Ping/Disconnect must return under their contexts).",
	"C12": " Added later: make-before-break switches; fuzz mode.",
	"C13": " Added later: scripts P S S P with responses taking 80 % of a 400 ms timeout over several intervals; every Ping must be given a context deadline of at least half the configured timeout (confirmed on 3 of 3 executions).",
	"C15": " Added later: the message that is retransmitted over the second client carries a caller-set identifier half the time.",
	"C16": " Added later: reconn scenarios use transports whose Close returns late and that return net.Pipe/TCP-style errors after a local Close.",
	"C17": " Added later: one-shot handlers installing their successor from inside the callback (in7); make-before-break client switches with a message arriving on the replaced connection (in8); a Handle call that never returns in a certified-stuck run is a violation; fuzz mode.",
	"C18": " Added later: plans alternate the error style the transport returns after the library's own Close (net.Pipe, TCP, in-memory) and a late-returning Close.",
}

func init() {
	for id, s := range ruleAdditions {
		if p := fw.Lookup(id); p != nil {
			p.Rule += s
		}
	}
}
