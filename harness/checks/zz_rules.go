package checks

import "verif/fw"

// ruleAdditions: what was added to a check after its rule text was first written (strengthening in response to
// seeded changes, DESIGN.md 8.2). Appended to the rule text that goes into the evidence files.
var ruleAdditions = map[string]string{
	"C14": " Added later: Dispatch handlers that rewrite the topic they are given.",
	"C04": " Added later: the hand-over rule (HandlerCheck of C17) is also run through the reconnecting and retrying clients, whose handler travels from one BaseClient to the next (messages right behind every CONNACK, around cuts).",
	"C01": " Added later: make-before-break client switches by the hand-written loops with requests in flight (sw1); fuzz mode (workload, configuration, client kind, transport behaviour and plan all drawn from the PRNG); transports returning net.Pipe/TCP-style errors after a local Close and a late-returning Close; API calls that never return wind the run up as certified stuck.",
	"C02": " Added later: messages accepted before the first connection exists (preq2); zero deliveries in a certified-stuck or live-locked run are a violation as well; make-before-break switches; fuzz mode.",
	"C03": " Added later: fuzz mode; single-filter Subscribe calls that a re-subscription can mimic are excluded from R2.",
	"C05": " Added later: in faulty runs of the retrying clients every PUBLISH/SUBSCRIBE/UNSUBSCRIBE written (retransmissions and re-subscriptions included) is compared with the application's request, also against a broker that grants one QoS level less than requested. Inbound: QoS 2 PUBLISH with another PUBLISH before its PUBREL; every delivered message is read again after later packets were received (nothing may show through).",
	"C06": " Added later: hostile acknowledgements that match requests in flight (SUBACK vectors of any length/value incl. surplus codes, trailing bytes, reserved flags, truncated identifiers); failure and reserved SUBACK codes followed by session-less reconnects (the re-subscription must not bring the process down); pre-CONNACK streams. Listed malformed packets in the same buffer as an accepting CONNACK must end the link with a non-nil Err() and Closed error.",
	"C07": " Added later: 1-4 calls cancelled while waiting; their acknowledgements arrive late, in the foreign phase, while later calls with other identifiers wait. 1-2 calls are left unacknowledged while the application calls Disconnect: they must not return success.",
	"C08": " Added later: fuzz mode. Fault kind dropReq (request swallowed by a stalled link, response timeout configured).",
	"C09": " Added later: a connection that goes deaf for PINGREQ only (everything else still answered) must be given up by the keep-alive and replaced, checked after quiescence (the Connect context has been cancelled by then). Phase waiting-connack-forever: Disconnect (200 ms context) while the client waits for a CONNACK with no connect timeout must return at the latest one watchdog after its context expired.",
	"C11": " Added later: late-acks (calls of every kind incl. two Pings cancelled while waiting, then every answer sent twice, then a fresh Ping and a connection-ending cause: Done must close, reader must exit) and switch-* (hand-driven RetryClient, SetClient make-before-break while a request completes on the replaced connection; Connect/Publish/Ping/Disconnect must return under their contexts). State callbacks call Err()/Done(); a Connect outliving its context is a violation (not a hung worker); connect-writefail: peer gone before CONNECT is written - Connect fails, Done() closes, reader exits.",
	"C12": " Added later: make-before-break switches; fuzz mode.",
	"C13": " Added later: scripts P S S P with responses taking 80 % of a 400 ms timeout over several intervals; every Ping must be given a context deadline of at least half the configured timeout (confirmed on 3 of 3 executions). Surplus PINGRESPs in the middle of an interval before the silence: no PINGREQ after an unanswered PINGREQ (only intervals >= 100 ms, surplus consumed a quarter interval earlier, 3 of 3); a broker answering every PINGREQ 100 ms late (timeout 400 ms) with ResponseTimeout 20 ms configured must not be declared dead.",
	"C15": " Added later: the message that is retransmitted over the second client carries a caller-set identifier half the time. Caller-set identifiers combined with DUP/retain; mode meet: the retransmission of a request from the previous connection and a fresh request on the next must not carry the same identifier in 3 of 4 trials.",
	"C16": " Added later: reconn scenarios use transports whose Close returns late and that return net.Pipe/TCP-style errors after a local Close. Causes: peer close right behind an inbound QoS 1/2 PUBLISH (the reader's own acknowledgement write fails); peer gone before CONNECT is written.",
	"C17": " Added later: one-shot handlers installing their successor from inside the callback (in7); make-before-break client switches with a message arriving on the replaced connection (in8); a Handle call that never returns in a certified-stuck run is a violation; fuzz mode. The last inbound packet consumed on a connection is judged too; broker redelivery of unacknowledged inbound messages (same id, DUP=1).",
	"C18": " Added later: plans alternate the error style the transport returns after the library's own Close (net.Pipe, TCP, in-memory) and a late-returning Close. dropReq; dropped SUBACK of a re-subscription (session-less broker, established subscriptions); OnError callbacks that publish a status message through the client.",
}

func init() {
	for id, s := range ruleAdditions {
		if p := fw.Lookup(id); p != nil {
			p.Rule += s
		}
	}
}
