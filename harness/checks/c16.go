package checks

import (
	"context"
	"errors"
	"fmt"
	"math/rand"
	"strings"
	"sync"
	"time"

	mqtt "github.com/at-wat/mqtt-go"
	"verif/fw"
	"verif/memnet"
	"verif/mqttref"
	"verif/scen"
)

type c16Params struct {
	Mode string `json:"mode"` // base | reconn
	N    int    `json:"n"`
}

func c16Gen(tier string, seed int64) []fw.Case {
	var cs []fw.Case
	for i := 0; i < 8; i++ {
		cs = append(cs, fw.Mk(fmt.Sprintf("base-%d", i), c16Params{Mode: "base", N: scale(tier, 40, 10000)}))
	}
	for i := 0; i < 16; i++ {
		cs = append(cs, fw.Mk(fmt.Sprintf("reconn-%d", i), c16Params{Mode: "reconn", N: scale(tier, 5, 600)}))
	}
	for i := 0; i < 8; i++ {
		// Disconnect racing with a connection-ending cause, many times: the window in which the Closed callback
		// is overtaken by the Disconnected one (known finding) is a few instructions wide
		cs = append(cs, fw.Mk(fmt.Sprintf("disconnect-race-%d", i), c16Params{Mode: "race", N: scale(tier, 1500, 20000)}))
	}
	return cs
}

// stateLog extracts the ConnState callbacks of one connection.
type stateEv struct {
	state string
	err   string
	seq   int // callback entered
	ret   int // callback returned (large if it has not)
}

func statesOf(ev []memnet.Event, conn int) []stateEv {
	var out []stateEv
	for _, e := range ev {
		if e.Kind == memnet.KState && e.Conn == conn {
			out = append(out, stateEv{e.S, e.Err, e.Seq, 1 << 30})
		}
		if e.Kind == memnet.KStateRet && e.Conn == conn {
			for i := range out {
				if out[i].seq == e.Ref {
					out[i].ret = e.Seq
				}
			}
		}
	}
	return out
}

// checkConnStates applies the per-connection automaton.
//
//	disconnectCalled: Disconnect was called on this connection (seq of the call, -1 if not)
//	firstCause: seq of the first injected connection-ending cause (-1 if none)
//	ended: the connection has ended
func checkConnStates(ev []memnet.Event, conn int, cli *mqtt.BaseClient, disconnectCall, firstCause int, ended bool) (string, string) {
	st := statesOf(ev, conn)
	nA, nC, nD := 0, 0, 0
	seqD, retD := -1, 1<<30
	var closedErr string
	acceptSeq := -1
	for _, e := range ev {
		if e.Kind == memnet.KSend && e.Conn == conn && e.Pkt != nil && e.Pkt.Type == mqttref.CONNACK && e.Pkt.Code == 0 && acceptSeq < 0 {
			acceptSeq = e.Seq
		}
	}
	for _, s := range st {
		switch s.state {
		case "Active":
			nA++
			if acceptSeq < 0 || s.seq < acceptSeq {
				return "active-without-accepting-connack", fmt.Sprintf("connection %d: Active reported (#%d) but no accepting CONNACK had been sent (accept #%d)", conn, s.seq, acceptSeq)
			}
		case "Closed":
			nC++
			closedErr = s.err
			if seqD >= 0 && s.seq > retD {
				// strictly after: the Closed callback began after the Disconnected callback had returned
				// (callbacks of two goroutines that merely overlap are not ordered)
				sig := "closed-after-disconnected"
				if firstCause >= 0 && firstCause < seqD {
					// the connection-ending cause was injected before Disconnected was reported: the Closed
					// transition may have happened first and only its callback was overtaken
					sig = "closed-callback-overtaken-by-disconnect"
				}
				return sig, fmt.Sprintf("connection %d: Closed reported (#%d) after the Disconnected callback (#%d) had returned (#%d); first connection-ending cause at #%d", conn, s.seq, seqD, retD, firstCause)
			}
		case "Disconnected":
			nD++
			seqD, retD = s.seq, s.ret
		}
	}
	desc := func() string {
		var p []string
		for _, s := range st {
			p = append(p, fmt.Sprintf("%s(%q)#%d", s.state, s.err, s.seq))
		}
		return strings.Join(p, " ")
	}
	if nA > 1 || nC > 1 || nD > 1 {
		return "state-reported-twice", fmt.Sprintf("connection %d: callbacks %s", conn, desc())
	}
	var cerr error
	if cli != nil {
		cerr = cli.Err()
	}
	doneClosed := false
	if cli != nil {
		if d := cli.Done(); d != nil {
			select {
			case <-d:
				doneClosed = true
			default:
			}
		}
	}
	if ended && disconnectCall < 0 {
		if nC != 1 {
			return "closed-not-reported-once", fmt.Sprintf("connection %d ended without Disconnect but Closed was reported %d times: %s", conn, nC, desc())
		}
		if closedErr == "" {
			return "closed-without-error", fmt.Sprintf("connection %d: Closed reported with a nil error", conn)
		}
		if cli != nil && (cerr == nil || cerr.Error() != closedErr) {
			return "err-differs-from-closed-error", fmt.Sprintf("connection %d: Closed carried %q, Err() returns %v", conn, closedErr, cerr)
		}
	}
	if disconnectCall >= 0 {
		if nD != 1 {
			return "disconnected-not-reported-once", fmt.Sprintf("connection %d: Disconnect was called but Disconnected was reported %d times: %s", conn, nD, desc())
		}
		if firstCause < 0 || firstCause > disconnectCall {
			// graceful: nothing ended the connection before Disconnect
			if nC != 0 && firstCause < 0 {
				return "closed-on-graceful-disconnect", fmt.Sprintf("connection %d: graceful Disconnect but Closed was reported: %s", conn, desc())
			}
			if firstCause < 0 && cli != nil && cerr != nil {
				return "err-after-graceful-disconnect", fmt.Sprintf("connection %d: Err() = %v after a graceful Disconnect", conn, cerr)
			}
		}
	}
	if cli != nil && ended && !doneClosed {
		return "done-open-after-end", fmt.Sprintf("connection %d has ended but Done() is not closed", conn)
	}
	if cli != nil && !ended {
		if doneClosed {
			return "done-closed-while-healthy", fmt.Sprintf("connection %d is healthy but Done() is closed", conn)
		}
		if cerr != nil {
			return "err-on-healthy-connection", fmt.Sprintf("connection %d is healthy (Active, nothing injected) but Err() = %v", conn, cerr)
		}
	}
	return "", ""
}

func c16Base(rng *rand.Rand, forceRace bool) (sig, detail string, trace []string, shape string) {
	tr := memnet.NewTrace()
	peer := &scen.Script{Tr: tr, AutoConnack: true, AutoPing: true, AutoAck: true}
	refuse := rng.Intn(6) == 0 && !forceRace
	if refuse {
		peer.ConnackCode = byte(1 + rng.Intn(5))
		if rng.Intn(3) == 0 {
			// reserved return codes: anything but 0 is not an accepting CONNACK
			peer.ConnackCode = []byte{6, 7, 0x10, 0x7f, 0x80, 0xff}[rng.Intn(6)]
		}
	}
	cli, conn := scen.NewBase(tr, peer)
	conn.Chunk = []int{0, 1}[rng.Intn(2)]
	writeFail := !refuse && !forceRace && rng.Intn(10) == 0
	var wfSeq int
	if writeFail {
		// the peer is gone before CONNECT can be written
		wfSeq = tr.Add(memnet.Event{Kind: memnet.KNote, S: "cause: peer gone between dial and CONNECT"})
		conn.PeerClose("cause")
	}
	err := scen.ConnectBase(cli)
	fail := func(s, d string) (string, string, []string, string) { return s, d, tr.Dump(50), "" }
	if writeFail {
		if err == nil {
			return fail("connect-accepted-dead-connection", "Connect returned nil although CONNECT could not be written")
		}
		if errors.Is(err, scen.ErrConnectHung) {
			return "inconclusive", err.Error(), nil, "" // C11's business
		}
		select {
		case <-cli.Done():
		case <-time.After(scen.Watchdog):
			return fail("done-open-after-end", fmt.Sprintf("Connect failed (%v) because the connection was gone, but Done() never closed", err))
		}
		time.Sleep(50 * time.Microsecond)
		if s, d := checkConnStates(tr.Snapshot(), conn.ID, cli, -1, wfSeq, true); s != "" {
			return fail(s, d)
		}
		return "", "", nil, "connect-write-failed"
	}
	if refuse {
		if err == nil {
			return fail("connect-accepted-refusal", "Connect returned nil on a refusing CONNACK")
		}
		cs := tr.Add(memnet.Event{Kind: memnet.KNote, S: "cause: refused CONNACK; local Close"})
		cli.Close()
		select {
		case <-cli.Done():
		case <-time.After(scen.Watchdog):
			return fail("done-open-after-end", "Done() not closed after refused CONNACK and Close")
		}
		time.Sleep(50 * time.Microsecond)
		s, d := checkConnStates(tr.Snapshot(), conn.ID, cli, -1, cs, true)
		if s != "" {
			return fail(s, d)
		}
		for _, st := range statesOf(tr.Snapshot(), conn.ID) {
			if st.state == "Active" {
				return fail("active-without-accepting-connack", "Active reported on a refused connection")
			}
		}
		return "", "", nil, "refused"
	}
	if err != nil {
		return "inconclusive", err.Error(), nil, ""
	}
	// healthy sample
	if s, d := checkConnStates(tr.Snapshot(), conn.ID, cli, -1, -1, false); s != "" {
		return fail(s, d)
	}
	causes := []string{"peerclose", "localclose", "malformed", "disconnect", "inboundcut"}
	n := 1
	if rng.Intn(2) == 0 {
		n = 2
	}
	var chosen []string
	for len(chosen) < n {
		c := causes[rng.Intn(len(causes))]
		dup := false
		for _, x := range chosen {
			if x == c {
				dup = true
			}
		}
		if !dup {
			chosen = append(chosen, c)
		}
	}
	if forceRace {
		chosen = []string{"disconnect", []string{"localclose", "peerclose", "malformed"}[rng.Intn(3)]}
		n = 2
	}
	race := n == 2 && (rng.Intn(2) == 0 || forceRace)
	var wg sync.WaitGroup
	var mu sync.Mutex
	firstCause, discCall := -1, -1
	apply := func(c string) {
		defer wg.Done()
		switch c {
		case "peerclose":
			s := tr.Add(memnet.Event{Kind: memnet.KNote, S: "cause: peer close"})
			conn.PeerClose("cause")
			mu.Lock()
			if firstCause < 0 || s < firstCause {
				firstCause = s
			}
			mu.Unlock()
		case "localclose":
			s := tr.Add(memnet.Event{Kind: memnet.KNote, S: "cause: local Close"})
			cli.Close()
			mu.Lock()
			if firstCause < 0 || s < firstCause {
				firstCause = s
			}
			mu.Unlock()
		case "malformed":
			s := tr.Add(memnet.Event{Kind: memnet.KNote, S: "cause: malformed packet"})
			conn.Send([]byte{0x36, 0x03, 0x00, 0x01, 'x'}, "malformed")
			mu.Lock()
			if firstCause < 0 || s < firstCause {
				firstCause = s
			}
			mu.Unlock()
		case "inboundcut":
			// the peer closes right behind an inbound QoS 1/2 PUBLISH: the reader's own PUBACK/PUBREC write is what fails
			s := tr.Add(memnet.Event{Kind: memnet.KNote, S: "cause: peer close right behind an inbound PUBLISH"})
			tr.Mu.Lock()
			conn.SendLocked(mqttref.EncPublish("c16/in", []byte("x"), byte(1+s%2), false, false, 77), "inbound")
			conn.PeerCloseLocked("cause")
			tr.Mu.Unlock()
			mu.Lock()
			if firstCause < 0 || s < firstCause {
				firstCause = s
			}
			mu.Unlock()
		case "disconnect":
			s := tr.Call("Disconnect", "")
			mu.Lock()
			discCall = s
			mu.Unlock()
			ctx, cancel := context.WithTimeout(context.Background(), scen.Watchdog)
			err := cli.Disconnect(ctx)
			cancel()
			tr.Ret(s, "Disconnect", "", err)
		}
	}
	for _, c := range chosen {
		wg.Add(1)
		if race {
			go apply(c)
		} else {
			apply(c)
			if rng.Intn(2) == 0 {
				time.Sleep(100 * time.Microsecond)
			}
		}
	}
	wg.Wait()
	select {
	case <-cli.Done():
	case <-time.After(scen.Watchdog):
		if scen.CertifyStuck(tr, conn) {
			return fail("done-open-after-end", fmt.Sprintf("causes %v applied but Done() never closed", chosen))
		}
		return "inconclusive", "Done not closed within watchdog", nil, ""
	}
	time.Sleep(100 * time.Microsecond) // callbacks of a racing second cause
	dc, fc := discCall, firstCause
	if race && dc >= 0 && fc >= 0 {
		// racing causes: the order in which the library saw them is unknown; accept both
		// outcomes by checking only the order-independent rules
		st := statesOf(tr.Snapshot(), conn.ID)
		retD, seqD := 1<<30, 1<<30
		cnt := map[string]int{}
		for _, s := range st {
			cnt[s.state]++
			if s.state == "Disconnected" {
				retD, seqD = s.ret, s.seq
			}
			if s.state == "Closed" && s.seq > retD {
				sig := "closed-after-disconnected"
				if fc < seqD {
					sig = "closed-callback-overtaken-by-disconnect"
				}
				return fail(sig, fmt.Sprintf("racing %v: Closed callback began (#%d) after the Disconnected callback had returned (#%d); cause injected at #%d, Disconnected reported at #%d", chosen, s.seq, retD, fc, seqD))
			}
		}
		if cnt["Active"] > 1 || cnt["Closed"] > 1 || cnt["Disconnected"] != 1 {
			return fail("state-reported-twice", fmt.Sprintf("racing %v: callbacks %v", chosen, st))
		}
		return "", "", nil, "race:" + strings.Join(chosen, "+")
	}
	if s, d := checkConnStates(tr.Snapshot(), conn.ID, cli, dc, fc, true); s != "" {
		return fail(s, d+fmt.Sprintf(" (causes %v)", chosen))
	}
	return "", "", nil, strings.Join(chosen, ">")
}

// c16Reconn: reconnecting client with keep-alive; earlier connections end by various causes; the
// current connection is sampled while healthy (>= 2 keep-alive intervals after its CONNACK), then
// Disconnect is called and Err()/Done() are sampled again after 3 more intervals.
var kaChecked int

func c16Reconn(rng *rand.Rand) (sig, detail string, trace []string, shape string) {
	ping := []int{0, 2, 3, 5}[rng.Intn(4)]
	sc := scen.Scenario{Client: "reconnect", Cfg: scen.BrokerCfg{Method: "A", Session: "keep"}, WaitBaseMs: 1, WaitMaxMs: 2, TimeoutMs: 15, PingMs: ping, KeepOpen: true,
		// a transport whose Close takes a while gives the reader time to report its own (secondary) error first
		CloseLinger: []int{0, 3, 10}[rng.Intn(3)], CloseStyle: []string{"pipe", "net", ""}[rng.Intn(3)]}
	n := 1 + rng.Intn(4)
	tag := 0
	for i := 0; i < n; i++ {
		tag++
		sc.Steps = append(sc.Steps, scen.Step{Op: "pub", QoS: 1, Tag: fmt.Sprintf("m%d", tag), Wait: true})
		switch rng.Intn(5) {
		case 0:
			sc.Steps = append(sc.Steps, scen.Step{Op: "cut"})
		case 1:
			sc.Steps = append(sc.Steps, scen.Step{Op: "garbage"})
		case 2:
			if ping > 0 {
				sc.Steps = append(sc.Steps, scen.Step{Op: "silentping"}, scen.Step{Op: "sleep", Ms: 25}, scen.Step{Op: "pingok"})
			}
		case 3:
			sc.Faults = append(sc.Faults, scen.Fault{At: 2 + rng.Intn(6), Kind: []string{"refuse:2", scen.NoConnack, scen.CutAfter, scen.CutAfterResp}[rng.Intn(4)]})
		}
	}
	tag++
	sc.Steps = append(sc.Steps, scen.Step{Op: "pub", QoS: 1, Tag: fmt.Sprintf("m%d", tag), Wait: true})
	hasSilence, hasNoConnack := false, false
	for _, st := range sc.Steps {
		if st.Op == "silentping" {
			hasSilence = true
		}
	}
	for _, f := range sc.Faults {
		if f.Kind == scen.NoConnack {
			hasNoConnack = true
		}
	}
	if !hasSilence && !hasNoConnack {
		// no scenario step needs a short timeout: use a generous one so that machine load cannot make a
		// healthy ping time out (which would legitimately close the connection)
		sc.TimeoutMs = 3000
	}
	run := scen.Exec(&sc)
	defer run.Finish()
	tr := run.Tr
	fail := func(s, d string) (string, string, []string, string) {
		return s, d + fmt.Sprintf("\nsteps=%v faults=%v ping=%dms", sc.Steps, sc.Faults, ping), tr.Dump(120), ""
	}
	if run.Inconcl != "" || !run.Quiescent {
		return "inconclusive", run.Inconcl, nil, ""
	}
	// the current connection: the last one dialled; healthy by construction (faults cleared, sentinel acknowledged)
	tr.Mu.Lock()
	cur := len(tr.Conns)
	curConn := tr.Conns[cur-1]
	healthy := curConn.OpenLocked()
	clients := map[int]*mqtt.BaseClient{}
	for k, v := range run.Clients {
		clients[k] = v
	}
	tr.Mu.Unlock()
	if !healthy {
		return "inconclusive", "current connection not open at quiescence", nil, ""
	}
	// a connection on which a PINGREQ was silently dropped ends by keep-alive timeout: the error that
	// ended it (Closed callback, Err()) is ErrPingTimeout
	{
		ev := tr.Snapshot()
		silent := false
		dropped := map[int]bool{}
		for _, e := range ev {
			if e.Kind == memnet.KNote && strings.HasPrefix(e.S, "broker stops answering") {
				silent = true
			}
			if e.Kind == memnet.KNote && strings.HasPrefix(e.S, "broker answers PINGREQ again") {
				silent = false
			}
			if silent && e.Kind == memnet.KWrite && e.OK && e.S == "" && e.Pkt != nil && e.Pkt.Type == mqttref.PINGREQ {
				dropped[e.Conn] = true
			}
		}
		for id := range dropped {
			if id == cur {
				continue
			}
			kaChecked++
			for _, s := range statesOf(ev, id) {
				if s.state == "Closed" && !strings.Contains(s.err, mqtt.ErrPingTimeout.Error()) {
					// only when nothing else was injected on that connection
					other := false
					for _, e := range ev {
						if e.Conn == id && (e.Kind == memnet.KFault || e.Kind == memnet.KPeerClose || (e.Kind == memnet.KSend && e.Mal != "")) {
							other = true
						}
					}
					if !other {
						return fail("wrong-error-for-keepalive-timeout", fmt.Sprintf("connection %d ended because a PINGREQ was never answered, but the Closed callback carried %q (Err()=%v), not ErrPingTimeout", id, s.err, clients[id].Err()))
					}
				}
			}
		}
	}
	// A PINGREQ dropped during a silent period still times out later: a connection that existed
	// while the broker was silent is not healthy by construction and is not sampled.
	lastSilenceEnd, curDial := -1, -1
	for _, e := range tr.Snapshot() {
		if e.Kind == memnet.KNote && strings.HasPrefix(e.S, "broker answers PINGREQ again") {
			lastSilenceEnd = e.Seq
		}
		if e.Kind == memnet.KDialEnd && e.OK && e.Conn == cur {
			curDial = e.Seq
		}
	}
	if curDial < lastSilenceEnd {
		return "", "", nil, "unsampled-overlaps-silence"
	}
	if sc.TimeoutMs < 1000 && ping > 0 {
		// short ping timeout (needed by a silence / absent-CONNACK step): a loaded machine could make a
		// healthy ping time out, so the health of the current connection is not asserted in this run
		return "", "", nil, "unsampled-short-timeout"
	}
	if ping > 0 {
		time.Sleep(time.Duration(3*ping) * time.Millisecond) // stale keep-alive goroutines of earlier connections have ticked by now
	}
	ev := tr.Snapshot()
	// earlier connections: ended without Disconnect
	for id, cl := range clients {
		if id == cur {
			continue
		}
		if s, d := checkConnStates(ev, id, cl, -1, 0, true); s != "" {
			return fail(s, d)
		}
	}
	tr.Mu.Lock()
	stillOpen := curConn.OpenLocked()
	tr.Mu.Unlock()
	if stillOpen {
		if s, d := checkConnStates(ev, cur, clients[cur], -1, -1, false); s != "" {
			return fail(s, d)
		}
	} else {
		return fail("healthy-connection-closed", fmt.Sprintf("connection %d was closed although nothing was injected on it (keep-alive answered, faults cleared)", cur))
	}
	// graceful Disconnect
	cs := tr.Call("Disconnect", "")
	ctx, cancel := context.WithTimeout(context.Background(), scen.Watchdog)
	err := run.Cli.Disconnect(ctx)
	cancel()
	tr.Ret(cs, "Disconnect", "", err)
	if err != nil {
		if scen.IsDeadline(err) {
			return "inconclusive", "Disconnect timed out", nil, ""
		}
		return fail("disconnect-error", fmt.Sprintf("graceful Disconnect returned %v", err))
	}
	select {
	case <-clients[cur].Done():
	case <-time.After(scen.Watchdog):
		return fail("done-open-after-end", "Done() not closed after Disconnect")
	}
	if s, d := checkConnStates(tr.Snapshot(), cur, clients[cur], cs, -1, true); s != "" {
		return fail(s, d+" (sampled right after Disconnect)")
	}
	if ping > 0 {
		time.Sleep(time.Duration(3*ping) * time.Millisecond)
		if s, d := checkConnStates(tr.Snapshot(), cur, clients[cur], cs, -1, true); s != "" {
			return fail(s, d+fmt.Sprintf(" (sampled %d ms = 3 keep-alive intervals after Disconnect)", 3*ping))
		}
	}
	return "", "", nil, fmt.Sprintf("conns=%d ping=%d", cur, ping)
}

func c16Run(c fw.Case, env *fw.Env) fw.Result {
	var p c16Params
	fw.Params(c, &p)
	rng := env.Rng(c)
	r := fw.Result{Counters: map[string]int{}}
	for i := 0; i < p.N; i++ {
		var sig, det, shape string
		var trc []string
		sub := rand.New(rand.NewSource(rng.Int63()))
		if p.Mode == "base" {
			sig, det, trc, shape = c16Base(sub, false)
		} else if p.Mode == "race" {
			sig, det, trc, shape = c16Base(sub, true)
		} else {
			sig, det, trc, shape = c16Reconn(sub)
		}
		r.Evals++
		switch sig {
		case "":
			r.NT = append(r.NT, fw.Hash(p.Mode, shape, c.Idx, i))
			r.Counters[p.Mode+"_runs"]++
			r.Counters["keepalive_timeout_connections_checked"] = kaChecked
			if strings.HasPrefix(shape, "race:") {
				r.Counters["racing_cause_pairs"]++
			}
			if r.Sample == nil {
				r.Sample = map[string]interface{}{"mode": p.Mode, "shape": shape}
			}
		case "inconclusive":
			r.Counters["inconclusive_runs"]++
			if r.Counters["inconclusive_runs"] > 3 {
				r.Verdict = fw.Inconclusive
				r.Detail = det
				return r
			}
		default:
			if sig == "closed-callback-overtaken-by-disconnect" {
				// a recorded known finding: note it (once per case) and keep exploring the rest of the case
				r.Counters["closed_callback_overtaken"]++
				if len(r.More) == 0 {
					r.More = append(r.More, fw.Finding{Sig: sig, Detail: det})
					r.Trace = trc
				}
				continue
			}
			r.Verdict = fw.Violated
			r.Sig = sig
			r.Detail = det
			r.Trace = trc
			return r
		}
	}
	return r
}

func init() {
	fw.Register(&fw.Prop{
		ID:    "C16",
		Level: "fault_enumeration",
		Rule: "base: a BaseClient connection is ended by one or two (sequential or racing) causes from {peer close, local Close, malformed packet, Disconnect} or a refused CONNACK; reconn: a ReconnectClient with keep-alive 0/2/3/5 ms goes through 1-4 connections ended by idle cut, malformed packet, keep-alive silence, refused/absent CONNACK or cuts, " +
			"then the re-established connection is sampled >= 3 keep-alive intervals after its CONNACK, Disconnect is called, and Err()/Done() are sampled right away and again 3 intervals later. Per-connection automaton over the ConnState callback log plus samples: Active <= 1 and only after an accepting CONNACK was sent; " +
			"ended without Disconnect => exactly one Closed with a non-nil error equal to Err(); Disconnect => exactly one Disconnected and never Closed after it; graceful Disconnect => no Closed and Err()==nil (also later); healthy => Err()==nil and Done() open; ended => Done() closed. Racing causes: only the order-independent rules; a dedicated mode races Disconnect against a connection-ending cause thousands of times (this is where the known finding closed-callback-overtaken-by-disconnect shows). Non-trivial: every run (a connection ended or was sampled).",
		Assumptions: []string{"relative order of Active and Closed is not constrained", "when two causes race every outcome the statement allows is accepted"},
		Gen:         c16Gen,
		Run:         c16Run,
		Budget:      retryBudget,
	})
}
