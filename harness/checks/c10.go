package checks

import (
	"context"
	"fmt"
	"math/rand"
	"sync"
	"sync/atomic"
	"time"

	mqtt "github.com/at-wat/mqtt-go"
	"verif/fw"
	"verif/memnet"
	"verif/mqttref"
	"verif/scen"
)

type c10Params struct {
	Mode string `json:"mode"` // base | reconn | c07 | c15 | c20
	N    int    `json:"n"`
}

func c10Gen(tier string, seed int64) []fw.Case {
	var cs []fw.Case
	rep := scale(tier, 30, 300)
	for i := 0; i < 8; i++ {
		cs = append(cs, fw.Mk(fmt.Sprintf("base-storm-%d", i), c10Params{Mode: "base", N: rep}))
		cs = append(cs, fw.Mk(fmt.Sprintf("reconnect-storm-%d", i), c10Params{Mode: "reconn", N: rep}))
	}
	for i := 0; i < 4; i++ {
		cs = append(cs, fw.Mk(fmt.Sprintf("c07-scripts-%d", i), c10Params{Mode: "c07", N: rep * 4}))
		cs = append(cs, fw.Mk(fmt.Sprintf("c15-waves-%d", i), c10Params{Mode: "c15", N: rep}))
		cs = append(cs, fw.Mk(fmt.Sprintf("c20-copies-%d", i), c10Params{Mode: "c20", N: rep * 50}))
		cs = append(cs, fw.Mk(fmt.Sprintf("retry-scenarios-%d", i), c10Params{Mode: "scen", N: rep}))
	}
	return cs
}

// overlap matrix: which call kinds were observed executing at the same time
type overlap struct {
	mu     sync.Mutex
	active map[string]int
	pairs  map[string]bool
}

func (o *overlap) enter(kind string) {
	o.mu.Lock()
	for k, n := range o.active {
		if n > 0 {
			a, b := k, kind
			if b < a {
				a, b = b, a
			}
			o.pairs[a+"|"+b] = true
		}
	}
	o.active[kind]++
	o.mu.Unlock()
}
func (o *overlap) leave(kind string) {
	o.mu.Lock()
	o.active[kind]--
	o.mu.Unlock()
}

func wireFindings(tr *memnet.Trace) (sig, detail string) {
	tr.Mu.Lock()
	defer tr.Mu.Unlock()
	if len(tr.Online) > 0 {
		return "wire-integrity", tr.Online[0]
	}
	for _, e := range tr.Events {
		if e.Kind == memnet.KWrite && (e.Pkt == nil || e.Mal != "") {
			return "wire-integrity", "a write does not decode as one well-formed packet: " + e.String()
		}
	}
	return "", ""
}

// c10Base: many goroutines on one BaseClient while the peer pushes inbound traffic
// (the reader goroutine writes acknowledgements) and finally somebody closes.
func c10Base(rng *rand.Rand, ov *overlap) (string, string, []string) {
	tr := memnet.NewTrace()
	peer := &scen.Script{Tr: tr, AutoConnack: true, AutoPing: true}
	outID := uint16(2000)
	nreq := 0
	peer.OnPkt = func(c *memnet.Conn, p *mqttref.Packet, raw []byte) bool {
		if p == nil {
			return false
		}
		// acknowledge like a broker, but withhold every fifth acknowledgement: the caller (short deadline)
		// times out while other acknowledgements are being dispatched by the reader goroutine
		nreq++
		if a := scen.AckFor(p); a != nil && nreq%5 != 0 {
			c.SendLocked(a, "")
		}
		switch p.Type {
		case mqttref.PUBLISH:
			// echo something back: inbound traffic to be acknowledged by the reader goroutine
			outID++
			q := byte(outID % 3)
			c.SendLocked(mqttref.EncPublish("in/"+p.Topic, p.Payload, q, false, false, outID), "inbound")
		case mqttref.PUBREC:
			c.SendLocked(mqttref.EncAck(mqttref.PUBREL, p.ID), "")
		}
		return false
	}
	cli, conn := scen.NewBase(tr, peer)
	conn.YieldWrite = true
	conn.Chunk = []int{0, 1, 3}[rng.Intn(3)]
	var handled int64
	cli.Handle(mqtt.HandlerFunc(func(m *mqtt.Message) { atomic.AddInt64(&handled, 1) }))
	if err := scen.ConnectBase(cli); err != nil {
		return "inconclusive", err.Error(), nil
	}
	g := 8 + rng.Intn(25)
	var wg sync.WaitGroup
	ctx, cancel := context.WithTimeout(context.Background(), scen.Watchdog)
	defer cancel()
	closeAt := rng.Intn(g)
	for i := 0; i < g; i++ {
		wg.Add(1)
		go func(i int, seed int64) {
			defer wg.Done()
			lr := rand.New(rand.NewSource(seed))
			for k := 0; k < 12; k++ {
				kind := []string{"Publish0", "Publish1", "Publish2", "Subscribe", "Unsubscribe", "Ping", "Handle", "Stats", "Done/Err"}[lr.Intn(9)]
				ov.enter(kind)
				// requests carry a short deadline: a withheld acknowledgement ends the call by its context
				ctx, rcancel := context.WithTimeout(ctx, time.Duration(200+lr.Intn(1800))*time.Microsecond)
				switch kind {
				case "Publish0", "Publish1", "Publish2":
					q := mqtt.QoS(kind[7] - '0')
					pl := []byte("p")
					if lr.Intn(5) == 0 {
						// large payloads (any special path for them must still put one whole packet on the wire at a time)
						pl = make([]byte, []int{4096, 16384, 20000, 70000}[lr.Intn(4)])
					}
					cli.Publish(ctx, &mqtt.Message{Topic: fmt.Sprintf("t/%d/%d", i, k), QoS: q, Payload: pl})
				case "Subscribe":
					cli.Subscribe(ctx, mqtt.Subscription{Topic: fmt.Sprintf("s/%d", i), QoS: mqtt.QoS1})
				case "Unsubscribe":
					cli.Unsubscribe(ctx, fmt.Sprintf("s/%d", i))
				case "Ping":
					// concurrent Pings share one response slot in the library; a starved one ends with its context
					pctx, pc := context.WithTimeout(ctx, 5*time.Millisecond)
					cli.Ping(pctx)
					pc()
				case "Handle":
					cli.Handle(mqtt.HandlerFunc(func(m *mqtt.Message) { atomic.AddInt64(&handled, 1) }))
				case "Stats":
					_ = cli.Stats()
				case "Done/Err":
					_ = cli.Done()
					_ = cli.Err()
				}
				rcancel()
				ov.leave(kind)
			}
			if i == closeAt {
				ov.enter("Close")
				cli.Close()
				ov.leave("Close")
			}
		}(i, rng.Int63())
	}
	wg.Wait()
	cli.Close()
	if s, d := wireFindings(tr); s != "" {
		return s, d, tr.Dump(40)
	}
	return "", "", nil
}

// c10Reconn: concurrent callers on a ReconnectClient while connections are cut
// every few packets and keep-alive runs.
func c10Reconn(rng *rand.Rand, ov *overlap) (string, string, []string) {
	tr := memnet.NewTrace()
	var faults []scen.Fault
	at := 1
	for len(faults) < 12 {
		at += 3 + rng.Intn(12)
		faults = append(faults, scen.Fault{At: at, Kind: scen.CutKinds[rng.Intn(4)]})
	}
	sc := &scen.Scenario{Client: "reconnect", Chunk: []int{0, 1}[rng.Intn(2)]}
	br := scen.NewBroker(tr, scen.BrokerCfg{Method: "A", Session: []string{"keep", "lose"}[rng.Intn(2)], Echo: true}, faults)
	d, run := scen.NewDialer(tr, br, sc, nil)
	_ = run
	retry := &mqtt.RetryClient{ResponseTimeout: 50 * time.Millisecond}
	var errs int64
	retry.OnError = func(error) { atomic.AddInt64(&errs, 1) }
	rc, err := mqtt.NewReconnectClient(d, mqtt.WithReconnectWait(time.Millisecond, 2*time.Millisecond), mqtt.WithTimeout(50*time.Millisecond),
		mqtt.WithPingInterval(2*time.Millisecond), mqtt.WithRetryClient(retry), mqtt.WithAlwaysResubscribe(rng.Intn(2) == 0))
	if err != nil {
		return "inconclusive", err.Error(), nil
	}
	var handled int64
	rc.Handle(mqtt.HandlerFunc(func(m *mqtt.Message) { atomic.AddInt64(&handled, 1) }))
	ctx, cancel := context.WithTimeout(context.Background(), scen.Watchdog)
	defer cancel()
	if _, err := rc.Connect(ctx, "verif-race"); err != nil {
		return "inconclusive", err.Error(), nil
	}
	g := 6 + rng.Intn(12)
	var wg sync.WaitGroup
	for i := 0; i < g; i++ {
		wg.Add(1)
		go func(i int, seed int64) {
			defer wg.Done()
			lr := rand.New(rand.NewSource(seed))
			for k := 0; k < 10; k++ {
				kind := []string{"Publish0", "Publish1", "Publish2", "Subscribe", "Unsubscribe", "Ping", "Handle", "Stats", "Client/Err"}[lr.Intn(9)]
				ov.enter("R." + kind)
				switch kind {
				case "Publish0", "Publish1", "Publish2":
					q := mqtt.QoS(kind[7] - '0')
					rc.Publish(ctx, &mqtt.Message{Topic: fmt.Sprintf("s/%d", i), QoS: q, Payload: []byte(fmt.Sprintf("p%d.%d", i, k))})
				case "Subscribe":
					rc.Subscribe(ctx, mqtt.Subscription{Topic: fmt.Sprintf("s/%d", lr.Intn(g)), QoS: mqtt.QoS(lr.Intn(3))})
				case "Unsubscribe":
					rc.Unsubscribe(ctx, fmt.Sprintf("s/%d", lr.Intn(g)))
				case "Ping":
					pctx, pc := context.WithTimeout(ctx, 20*time.Millisecond)
					rc.Ping(pctx)
					pc()
				case "Handle":
					rc.Handle(mqtt.HandlerFunc(func(m *mqtt.Message) { atomic.AddInt64(&handled, 1) }))
				case "Stats":
					_ = rc.Stats()
				case "Client/Err":
					if c := rc.Client(); c != nil {
						_ = c.Err()
						_ = c.Done()
						_ = c.Stats()
					}
				}
				ov.leave("R." + kind)
				if lr.Intn(3) == 0 {
					time.Sleep(time.Duration(lr.Intn(300)) * time.Microsecond)
				}
			}
		}(i, rng.Int63())
	}
	wg.Wait()
	// let the queue drain a little, then disconnect
	tr.Mu.Lock()
	br.ClearFaults()
	tr.Mu.Unlock()
	time.Sleep(3 * time.Millisecond)
	dctx, dc := context.WithTimeout(context.Background(), time.Second)
	rc.Disconnect(dctx)
	dc()
	tr.Mu.Lock()
	for _, c := range tr.Conns {
		c.PeerCloseLocked("tear-down")
	}
	tr.Mu.Unlock()
	if s, d := wireFindings(tr); s != "" {
		return s, d, tr.Dump(40)
	}
	return "", "", nil
}

func c10Run(c fw.Case, env *fw.Env) fw.Result {
	var p c10Params
	fw.Params(c, &p)
	rng := env.Rng(c)
	r := fw.Result{Counters: map[string]int{}}
	ov := &overlap{active: map[string]int{}, pairs: map[string]bool{}}
	for i := 0; i < p.N; i++ {
		var sig, det string
		var trc []string
		sub := rand.New(rand.NewSource(rng.Int63()))
		switch p.Mode {
		case "base":
			sig, det, trc = c10Base(sub, ov)
		case "reconn":
			sig, det, trc = c10Reconn(sub, ov)
		case "c07":
			sig, det, trc, _, _ = c07Script(sub)
		case "c15":
			rr := c15Run(fw.Mk("race-waves", c15Params{Mode: "storm", N: 3}), env)
			if rr.Verdict == fw.Violated && rr.Sig != "id-reuse-laggard" {
				sig, det = "c15:"+rr.Sig, rr.Detail
			}
		case "scen":
			// the retrying clients in faulty runs: fuzz scenarios (all client kinds, handler replacement, responding
			// handlers, client switches) and the Handle/Stats storm workloads, under the race detector
			var sc scen.Scenario
			if i%3 == 0 {
				rp := retryParams{W: []string{"in6", "sw1", "in8", "respond", "echo", "ka"}[(i/3)%6], Cfg: scen.BrokerCfg{Method: "A", Session: []string{"keep", "lose"}[i%2]}, Client: []string{"", "retry", "retry-chaotic"}[(i/3)%3], Mode: "random", N: 1}
				sc = rp.scenarios(sub)[0]
			} else {
				sc = fuzzScenario(sub)
			}
			run := scen.Exec(&sc)
			if run.Inconcl != "" {
				sig = "inconclusive"
				break
			}
			a := scen.Analyse(run)
			for _, f := range a.Hygiene() {
				if f.Sig == "online" || f.Sig == "malformed-write" {
					sig, det, trc = "wire-integrity:"+f.Sig, f.Detail, a.Tail(60)
				}
			}
			r.Counters["scenario_connections"] += a.Connections()
		case "c20":
			rr := c20Run(fw.Case{Idx: c.Idx*1000 + i, P: mustJSON(c20Params{Mode: []string{"mux", "fanout"}[i%2], N: 20})}, env)
			if rr.Verdict == fw.Violated {
				sig, det = "c20:"+rr.Sig, rr.Detail
			}
		}
		r.Evals++
		if sig == "inconclusive" || sig == "harness" {
			r.Counters["inconclusive_runs"]++
			continue
		}
		if sig != "" {
			r.Verdict = fw.Violated
			r.Sig = sig
			r.Detail = det
			r.Trace = trc
			return r
		}
		r.Counters[p.Mode+"_runs"]++
	}
	for k := range ov.pairs {
		r.NT = append(r.NT, "overlap:"+k)
	}
	r.NT = append(r.NT, "mode:"+p.Mode)
	r.Sample = map[string]interface{}{"mode": p.Mode, "runs": p.N, "overlapping_call_kinds_seen": len(ov.pairs)}
	return r
}

func mustJSON(v interface{}) []byte {
	c := fw.Mk("x", v)
	return c.P
}

func init() {
	fw.Register(&fw.Prop{
		ID:      "C10",
		Level:   "exploration",
		Race:    true,
		Workers: 8,
		Procs:   6,
		Rule: "the workloads run in a binary built with -race (GORACE halt_on_error=0, reports collected from log files, de-duplicated by the pair of innermost library frames with line numbers stripped, matched against known_findings.json): " +
			"(base) 8-32 goroutines mixing Publish QoS0/1/2, Subscribe, Unsubscribe, Ping, Handle, Stats, Done, Err on one BaseClient while the peer pushes inbound QoS 0/1/2 traffic that the reader goroutine acknowledges, and a concurrent Close; " +
			"(reconnect) 6-17 goroutines on a ReconnectClient (Publish, Subscribe, Unsubscribe, Ping, Handle, Stats, Client().Err/Done/Stats) with keep-alive 2 ms, connections cut every 3-15 request packets and echo traffic; plus the C07, C15 (wrap storm) and C20 workloads. " +
			"Wire integrity: the transport flags overlapping Write calls (it yields inside Write to widen the window) and the broker-side framer must split the stream into well-formed packets. Non-trivial: distinct pairs of call kinds observed executing concurrently.",
		Assumptions: []string{"concurrent ServeMux.Handle vs Serve and calling Connect twice on one BaseClient are outside the listed compositions", "race reports whose both innermost frames are in the harness would be harness bugs and are reported as such"},
		Gen:         c10Gen,
		Run:         c10Run,
		Budget:      func(tier string) time.Duration { return 45 * time.Minute },
		MinNT:       10,
	})
}
