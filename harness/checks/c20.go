package checks

import (
	"bytes"
	"fmt"
	"math/rand"
	"sync"

	mqtt "github.com/at-wat/mqtt-go"
	"verif/fw"
)

type msgSnap struct {
	Topic   string
	ID      uint16
	QoS     mqtt.QoS
	Retain  bool
	Dup     bool
	Payload []byte
	Nil     bool
}

type keptMsg struct {
	h     int
	m     *mqtt.Message
	after msgSnap
}

func snapMsg(m *mqtt.Message) msgSnap {
	return msgSnap{Topic: string([]byte(m.Topic)), ID: m.ID, QoS: m.QoS, Retain: m.Retain, Dup: m.Dup, Payload: append([]byte{}, m.Payload...)}
}

func (a msgSnap) eq(b msgSnap) bool {
	return a.Topic == b.Topic && a.ID == b.ID && a.QoS == b.QoS && a.Retain == b.Retain && a.Dup == b.Dup && bytes.Equal(a.Payload, b.Payload)
}

func (a msgSnap) String() string {
	pl := a.Payload
	if len(pl) > 12 {
		pl = pl[:12]
	}
	return fmt.Sprintf("{%q id=%d q%d r=%v d=%v len=%d %x}", a.Topic, a.ID, a.QoS, a.Retain, a.Dup, len(a.Payload), pl)
}

// mutate changes everything a handler can reach through the pointer.
func mutateMsg(m *mqtt.Message, how int) {
	for i := range m.Payload {
		m.Payload[i] ^= 0xA5 // in place: visible through any alias of the backing array
	}
	if how&1 != 0 {
		// may write into spare capacity shared with an alias; the bytes depend on the handler
		m.Payload = append(m.Payload, byte('A'+how>>2), byte('a'+how>>2))
	}
	m.Topic = m.Topic + "/mutated"
	m.ID += 7
	m.QoS = (m.QoS + 1) % 3
	m.Retain = !m.Retain
	m.Dup = !m.Dup
}

type c20Params struct {
	Mode string `json:"mode"` // mux | fanout
	N    int    `json:"n"`
}

func c20Gen(tier string, seed int64) []fw.Case {
	n := 1500
	if tier == "thorough" {
		n = 250000
	}
	var cs []fw.Case
	for i := 0; i < 8; i++ {
		cs = append(cs, fw.Mk(fmt.Sprintf("mux-%d", i), c20Params{Mode: "mux", N: n}))
		cs = append(cs, fw.Mk(fmt.Sprintf("fanout-%d", i), c20Params{Mode: "fanout", N: n}))
	}
	return cs
}

func randMsg(rng *rand.Rand, topics []string) *mqtt.Message {
	var pl []byte
	switch rng.Intn(6) {
	case 0:
		pl = nil
	case 1:
		pl = []byte{}
	case 2:
		pl = make([]byte, rng.Intn(9), 64) // spare capacity (also with length 0): append by an aliasing handler would scribble
	case 3:
		pl = make([]byte, 1000+rng.Intn(3000))
	default:
		pl = make([]byte, 1+rng.Intn(40))
	}
	rng.Read(pl)
	return &mqtt.Message{Topic: topics[rng.Intn(len(topics))], ID: uint16(rng.Intn(65536)), QoS: mqtt.QoS(rng.Intn(3)), Retain: rng.Intn(2) == 0, Dup: rng.Intn(2) == 0, Payload: pl}
}

func c20Run(c fw.Case, env *fw.Env) fw.Result {
	var p c20Params
	fw.Params(c, &p)
	rng := env.Rng(c)
	r := fw.Result{Counters: map[string]int{}}
	fail := func(sig, f string, a ...interface{}) fw.Result {
		r.Verdict = fw.Violated
		r.Sig = sig
		r.Detail = fmt.Sprintf(f, a...)
		return r
	}
	topics := []string{"t/a", "t/b", "t/a/x", "u"}
	filters := []string{"#", "t/#", "t/+", "t/a", "+/a", "t/a/#", "u", "t/b", "+/+/x"}
	// messages that asynchronous handlers keep (e.g. hand on to a worker) across later dispatches: nothing a later
	// Serve call does may reach them
	var longKept []keptMsg
	var lkMu sync.Mutex
	for round := 0; round < p.N; round++ {
		if round%16 == 15 {
			lkMu.Lock()
			for _, k := range longKept {
				if now := snapMsg(k.m); !now.eq(k.after) {
					lkMu.Unlock()
					return fail("kept-message-changed-by-later-dispatch", "a message an asynchronous handler kept as %v reads %v after later messages were dispatched", k.after, now)
				}
			}
			if len(longKept) > 64 {
				longKept = longKept[len(longKept)-32:]
			}
			lkMu.Unlock()
		}
		switch p.Mode {
		case "mux":
			// ServeMux with 1..6 handlers (some behind ServeAsync); every handler
			// snapshots, then mutates; async handlers are parked until Serve returned
			// and are then released in a seeded order. The same mux serves 1..3
			// messages (one of them possibly the same *Message twice).
			var mux mqtt.ServeMux
			nh := 1 + rng.Intn(6)
			type rec struct {
				h    int
				msg  int
				snap msgSnap
			}
			var mu sync.Mutex
			var recs []rec
			var kept []keptMsg
			var wg sync.WaitGroup
			cur := 0
			gates := make([]chan struct{}, 0)
			var hf []string
			nAsync := 0
			for h := 0; h < nh; h++ {
				h := h
				f := filters[rng.Intn(len(filters))]
				hf = append(hf, f)
				how := rng.Intn(4)
				async := rng.Intn(3) == 0
				base := mqtt.HandlerFunc(func(m *mqtt.Message) {
					mu.Lock()
					recs = append(recs, rec{h, cur, snapMsg(m)})
					mu.Unlock()
					mutateMsg(m, how|1|h<<2)
					// the handler keeps its message: what it holds must not change when siblings mutate theirs
					mu.Lock()
					kept = append(kept, keptMsg{h, m, snapMsg(m)})
					mu.Unlock()
				})
				if async {
					nAsync++
					hf[h] += "(async)"
					inner := mqtt.HandlerFunc(func(m *mqtt.Message) {
						// runs on its own goroutine; wait for the gate of the current message
						mu.Lock()
						g := gates[len(gates)-1]
						mu.Unlock()
						<-g
						base(m)
						wg.Done()
					})
					a := &mqtt.ServeAsync{Handler: inner}
					if err := mux.Handle(f, mqtt.HandlerFunc(func(m *mqtt.Message) { wg.Add(1); a.Serve(m) })); err != nil {
						panic(err)
					}
				} else if err := mux.Handle(f, base); err != nil {
					panic(err)
				}
			}
			nm := 1 + rng.Intn(3)
			var prev *mqtt.Message
			for mi := 0; mi < nm; mi++ {
				msg := randMsg(rng, topics)
				if prev != nil && rng.Intn(3) == 0 {
					msg = prev // the same *Message served twice
				}
				prev = msg
				want := snapMsg(msg)
				mu.Lock()
				cur = mi
				g := make(chan struct{})
				gates = append(gates, g)
				mu.Unlock()
				mux.Serve(msg)
				if got := snapMsg(msg); !got.eq(want) {
					close(g)
					return fail("caller-message-changed", "ServeMux.Serve changed the caller's message: %v -> %v (handlers %v)", want, got, hf)
				}
				close(g) // async handlers run now, after Serve returned and after sync siblings mutated
				wg.Wait()
				if got := snapMsg(msg); !got.eq(want) {
					return fail("caller-message-changed", "caller's message changed after handlers ran: %v -> %v (handlers %v)", want, got, hf)
				}
				mu.Lock()
				n := 0
				for _, rc := range recs {
					if rc.msg != mi {
						continue
					}
					n++
					if !rc.snap.eq(want) {
						mu.Unlock()
						return fail("handler-saw-sibling-mutation", "message %d: handler %d (%s) received %v, original was %v; handlers=%v", mi, rc.h, hf[rc.h], rc.snap, want, hf)
					}
				}
				mu.Unlock()
				mu.Lock()
				for _, k := range kept {
					if now := snapMsg(k.m); !now.eq(k.after) {
						mu.Unlock()
						return fail("kept-message-changed-by-sibling", "message %d: what handler %d (%s) kept after its own changes was %v and later became %v: a sibling's change reached it; handlers=%v", mi, k.h, hf[k.h], k.after, now, hf)
					}
				}
				kept = kept[:0]
				mu.Unlock()
				if n >= 2 {
					r.Counters["messages_with_2plus_handlers"]++
					r.NT = append(r.NT, fw.Hash("mux", c.Idx, round, mi))
				}
				if nAsync > 0 && n >= 2 {
					r.Counters["with_async_sibling"]++
				}
			}
			if round == 0 {
				r.Sample = map[string]interface{}{"mode": "mux", "handlers": hf, "messages": nm}
			}
		case "fanout":
			// A hand-written fan-out handler passes the SAME pointer to a list of
			// ServeAsync-wrapped handlers and in-place mutating direct handlers.
			// Every ServeAsync handler must receive the content the message had when
			// ServeAsync.Serve was called, whatever siblings do afterwards.
			msg := randMsg(rng, topics)
			n := 2 + rng.Intn(4)
			var mu sync.Mutex
			var wg sync.WaitGroup
			type exp struct {
				want, got msgSnap
				done      bool
			}
			exps := make([]*exp, 0)
			kinds := ""
			for i := 0; i < n; i++ {
				if rng.Intn(2) == 0 {
					kinds += "A"
					e := &exp{want: snapMsg(msg)}
					exps = append(exps, e)
					how := rng.Intn(4)
					wg.Add(1)
					a := &mqtt.ServeAsync{Handler: mqtt.HandlerFunc(func(m *mqtt.Message) {
						mu.Lock()
						e.got = snapMsg(m)
						e.done = true
						mu.Unlock()
						mutateMsg(m, how)
						lkMu.Lock()
						longKept = append(longKept, keptMsg{0, m, snapMsg(m)})
						lkMu.Unlock()
						wg.Done()
					})}
					a.Serve(msg)
				} else {
					kinds += "M"
					mutateMsg(msg, rng.Intn(4)) // direct sibling mutates the shared message right away
				}
			}
			wg.Wait()
			na := 0
			for i, e := range exps {
				na++
				if !e.got.eq(e.want) {
					return fail("async-copy-taken-late-or-shared", "fan-out %s: async handler #%d received %v, message was %v when ServeAsync.Serve was called", kinds, i, e.got, e.want)
				}
			}
			if na > 0 && len(kinds) > na {
				r.Counters["async_with_mutating_sibling"]++
				r.NT = append(r.NT, fw.Hash("fan", c.Idx, round))
			}
			if round == 0 {
				r.Sample = map[string]interface{}{"mode": "fanout", "sequence": kinds, "A": "ServeAsync handler", "M": "direct in-place mutation"}
			}
		}
	}
	return r
}

func init() {
	fw.Register(&fw.Prop{
		ID:    "C20",
		Level: "exploration",
		Rule: "seeded random rounds: (mux) ServeMux with 1-6 handlers on overlapping filters, a third of them behind ServeAsync and parked until Serve returned; every handler snapshots what it received and then mutates topic, payload bytes in place, " +
			"payload slice (append into spare capacity), id and flags; 1-3 messages per mux incl. the same *Message twice and nil/empty/large payloads; (fanout) the same pointer handed to ServeAsync handlers and in-place mutating siblings. " +
			"Oracle: every snapshot equals the caller's original, what a handler kept after its own changes is not altered by its siblings (resp. the content at the time ServeAsync.Serve was called) and the caller's message is unchanged. Non-trivial: a message that reached >=2 handlers, or an async handler with a mutating sibling.",
		Assumptions: []string{"handlers mutate only through the pointer they are given"},
		Gen:         c20Gen,
		Run:         c20Run,
	})
}
