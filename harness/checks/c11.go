package checks

import (
	"context"
	"errors"
	"fmt"
	"math/rand"
	"runtime"
	"strings"
	"sync"
	"time"

	mqtt "github.com/at-wat/mqtt-go"
	"verif/fw"
	"verif/memnet"
	"verif/mqttref"
	"verif/scen"
)

type c11Case struct {
	Kind  string `json:"kind"`  // connect pub1 pub2rec pub2comp sub unsub ping retry-pub1 retry-pub2 retry-pub2comp retry-sub retry-unsub rc-dial rc-connack rc-backoff
	Cause string `json:"cause"` // precancel cancel deadline localclose peerclose malformed
	Multi bool   `json:"multi"` // three more calls of other kinds blocked at the same time
	Stray bool   `json:"stray"` // unsolicited acknowledgements of every kind are processed before the calls start
	Chunk int    `json:"chunk"`
	Slow  int    `json:"slow"`
}

type c11Params struct {
	Cases []c11Case `json:"cases"`
	Rep   int       `json:"rep"`
}

var c11Kinds = []string{"connect", "pub1", "pub2rec", "pub2comp", "sub", "unsub", "ping", "retry-pub1", "retry-pub2", "retry-pub2comp", "retry-sub", "retry-unsub", "rc-dial", "rc-connack", "rc-backoff", "rc-active"}
var c11Causes = []string{"precancel", "cancel", "deadline", "localclose", "peerclose", "malformed", "disconnect"}

func c11Gen(tier string, seed int64) []fw.Case {
	var all []c11Case
	for _, k := range c11Kinds {
		for _, ca := range c11Causes {
			if strings.HasPrefix(k, "rc-") && (ca == "localclose" || ca == "peerclose" || ca == "malformed" || ca == "disconnect") {
				continue // the reconnecting Connect is not tied to one connection
			}
			if k == "rc-active" && ca != "cancel" {
				continue
			}
			if ca == "disconnect" && (k == "connect" || strings.HasPrefix(k, "retry-")) {
				continue
			}
			for _, multi := range []bool{false, true} {
				if multi && (strings.HasPrefix(k, "rc-") || strings.HasPrefix(k, "retry-") || k == "connect") {
					continue
				}
				all = append(all, c11Case{Kind: k, Cause: ca, Multi: multi})
			}
			if (k == "pub1" || k == "sub" || k == "ping" || k == "pub2rec") && (ca == "cancel" || ca == "peerclose") {
				all = append(all, c11Case{Kind: k, Cause: ca, Multi: true, Stray: true})
			}
		}
	}
	for _, ca := range []string{"peerclose", "localclose", "malformed"} {
		all = append(all, c11Case{Kind: "late-acks", Cause: ca}, c11Case{Kind: "late-acks", Cause: ca, Chunk: 1})
	}
	all = append(all, c11Case{Kind: "connect-writefail", Cause: "peerclose"}, c11Case{Kind: "connect-writefail", Cause: "peerclose", Slow: 2})
	all = append(all, c11Case{Kind: "disconnect-handler-busy", Cause: "deadline"}, c11Case{Kind: "disconnect-from-handler", Cause: "deadline"})
	for _, ca := range []string{"cancel", "deadline"} {
		for _, k := range []string{"switch-pub1", "switch-pub2", "switch-sub"} {
			all = append(all, c11Case{Kind: k, Cause: ca})
		}
	}
	var cs []fw.Case
	per := 8
	for i := 0; i < len(all); i += per {
		j := i + per
		if j > len(all) {
			j = len(all)
		}
		cs = append(cs, fw.Mk(fmt.Sprintf("enum-%d", i/per), c11Params{Cases: all[i:j], Rep: scale(tier, 1, 200)}))
	}
	return cs
}

func serveGoroutines() int {
	buf := make([]byte, 1<<20)
	buf = buf[:runtime.Stack(buf, true)]
	n := 0
	for _, g := range strings.Split(string(buf), "\n\n") {
		if strings.Contains(g, "mqtt-go.(*BaseClient).serve") || strings.Contains(g, "mqtt-go.(*BaseClient).Connect.func1") {
			n++
		}
	}
	return n
}

type blocked struct {
	name string
	ctx  context.Context
	done chan error
	ret  bool
	err  error
}

func c11One(k c11Case, rng *rand.Rand) (sig, detail string, trace []string) {
	if strings.HasPrefix(k.Kind, "rc-") {
		return c11Reconnect(k, rng)
	}
	if k.Kind == "late-acks" {
		return c11LateAcks(k, rng)
	}
	if k.Kind == "connect-writefail" {
		return c11ConnectWriteFail(k)
	}
	if k.Kind == "disconnect-handler-busy" || k.Kind == "disconnect-from-handler" {
		return c11DisconnectHandler(k)
	}
	if strings.HasPrefix(k.Kind, "switch-") {
		return c11Switch(k, rng)
	}
	base := serveGoroutines()
	tr := memnet.NewTrace()
	peer := &scen.Script{Tr: tr, AutoConnack: k.Kind != "connect", AutoPing: false}
	cli, conn := scen.NewBase(tr, peer)
	conn.Chunk, conn.SlowReturn = k.Chunk, k.Slow
	id := fmt.Sprintf("%s/%s/multi=%v", k.Kind, k.Cause, k.Multi)
	fail := func(s, f string, a ...interface{}) (string, string, []string) {
		cli.Close()
		return s + ":" + k.Kind + "/" + k.Cause, id + ": " + fmt.Sprintf(f, a...), tr.Dump(60)
	}
	mkctx := func() (context.Context, context.CancelFunc) {
		switch k.Cause {
		case "deadline":
			return context.WithTimeout(context.Background(), 4*time.Millisecond)
		case "precancel":
			c, cancel := context.WithCancel(context.Background())
			cancel()
			return c, cancel
		}
		return context.WithCancel(context.Background())
	}
	var cancels []context.CancelFunc
	var calls []*blocked
	var mu sync.Mutex
	start := func(name string, fn func(ctx context.Context) error) *blocked {
		ctx, cancel := mkctx()
		cancels = append(cancels, cancel)
		b := &blocked{name: name, ctx: ctx, done: make(chan error, 1)}
		calls = append(calls, b)
		go func() {
			cs := tr.Call(name, "")
			err := fn(ctx)
			tr.Ret(cs, name, "", err)
			mu.Lock()
			b.ret, b.err = true, err
			mu.Unlock()
			b.done <- err
		}()
		return b
	}
	defer func() {
		for _, c := range cancels {
			c()
		}
	}()
	waitPkt := func(t int, n int) bool {
		d := scen.Watchdog
		if k.Stray {
			d = 2 * time.Second
		}
		_, ok := peer.WaitIn(d, n, func(p *mqttref.Packet) bool { return p.Type == t })
		if !ok && k.Stray && scen.CertifyStuck(tr, conn) {
			// the call neither wrote its request nor returned and nothing moves: go on and apply the
			// cause - the call must still return
			tr.Note("request never written; system quiescent; applying the cause anyway")
			return true
		}
		return ok
	}
	if k.Kind != "connect" {
		if err := scen.ConnectBase(cli); err != nil {
			if errors.Is(err, scen.ErrConnectHung) && scen.CertifyStuck(tr, conn) {
				return fail("blocked-forever", "Connect on a healthy connection (CONNACK sent at once) never returned, not even after its context expired")
			}
			return "inconclusive", err.Error(), nil
		}
	}
	if k.Stray {
		peer.AutoPing = true
		for _, t := range []int{mqttref.PUBACK, mqttref.PUBREC, mqttref.PUBCOMP, mqttref.UNSUBACK} {
			conn.Send(mqttref.EncAck(t, uint16(7+t)), "unsolicited")
		}
		conn.Send(mqttref.EncSubAck(99, []byte{0}), "unsolicited")
		barrier := make(chan error, 1)
		go func() { barrier <- scen.Barrier(cli) }()
		select {
		case <-barrier:
		case <-time.After(2 * time.Second):
			// the barrier ping itself is stuck: continue, the calls below will show it
		}
		peer.AutoPing = false
	}
	cli2holder := struct {
		cli  *mqtt.BaseClient
		conn *memnet.Conn
	}{}
	primaryConn := conn
	// bring the primary call to its step
	switch k.Kind {
	case "connect":
		start("Connect", func(ctx context.Context) error { _, err := cli.Connect(ctx, "verif"); return err })
		if k.Cause != "precancel" && !waitPkt(mqttref.CONNECT, 1) {
			return "inconclusive", "CONNECT not seen", nil
		}
	case "pub1":
		start("Publish-q1", func(ctx context.Context) error {
			return cli.Publish(ctx, &mqtt.Message{Topic: "c11", QoS: mqtt.QoS1, Payload: []byte("x")})
		})
		if k.Cause != "precancel" && !waitPkt(mqttref.PUBLISH, 1) {
			return "inconclusive", "PUBLISH not seen", nil
		}
	case "pub2rec", "pub2comp":
		peer.OnPkt = func(c *memnet.Conn, p *mqttref.Packet, raw []byte) bool {
			if k.Kind == "pub2comp" && p != nil && p.Type == mqttref.PUBLISH && p.QoS == 2 {
				c.SendLocked(mqttref.EncAck(mqttref.PUBREC, p.ID), "")
			}
			return false
		}
		start("Publish-q2", func(ctx context.Context) error {
			return cli.Publish(ctx, &mqtt.Message{Topic: "c11", QoS: mqtt.QoS2, Payload: []byte("x")})
		})
		want := mqttref.PUBLISH
		if k.Kind == "pub2comp" {
			want = mqttref.PUBREL
		}
		if k.Cause != "precancel" && !waitPkt(want, 1) {
			return "inconclusive", "request packet not seen", nil
		}
	case "sub":
		start("Subscribe", func(ctx context.Context) error {
			_, err := cli.Subscribe(ctx, mqtt.Subscription{Topic: "c11/#", QoS: mqtt.QoS1})
			return err
		})
		if k.Cause != "precancel" && !waitPkt(mqttref.SUBSCRIBE, 1) {
			return "inconclusive", "SUBSCRIBE not seen", nil
		}
	case "unsub":
		start("Unsubscribe", func(ctx context.Context) error { return cli.Unsubscribe(ctx, "c11/#") })
		if k.Cause != "precancel" && !waitPkt(mqttref.UNSUBSCRIBE, 1) {
			return "inconclusive", "UNSUBSCRIBE not seen", nil
		}
	case "ping":
		start("Ping", func(ctx context.Context) error { return cli.Ping(ctx) })
		if k.Cause != "precancel" && !waitPkt(mqttref.PINGREQ, 1) {
			return "inconclusive", "PINGREQ not seen", nil
		}
	default: // retry-*: interrupt a request on connection 1, then block its Retry handle on a fresh client
		var herr error
		hctx, hcancel := context.WithTimeout(context.Background(), scen.Watchdog)
		defer hcancel()
		hdone := make(chan struct{})
		var want int
		switch k.Kind {
		case "retry-pub1":
			want = mqttref.PUBLISH
			go func() {
				herr = cli.Publish(hctx, &mqtt.Message{Topic: "c11", QoS: mqtt.QoS1, Payload: []byte("x")})
				close(hdone)
			}()
		case "retry-pub2":
			want = mqttref.PUBLISH
			go func() {
				herr = cli.Publish(hctx, &mqtt.Message{Topic: "c11", QoS: mqtt.QoS2, Payload: []byte("x")})
				close(hdone)
			}()
		case "retry-pub2comp":
			want = mqttref.PUBREL
			peer.OnPkt = func(c *memnet.Conn, p *mqttref.Packet, raw []byte) bool {
				if c.ID == 1 && p != nil && p.Type == mqttref.PUBLISH {
					c.SendLocked(mqttref.EncAck(mqttref.PUBREC, p.ID), "")
				}
				return false
			}
			go func() {
				herr = cli.Publish(hctx, &mqtt.Message{Topic: "c11", QoS: mqtt.QoS2, Payload: []byte("x")})
				close(hdone)
			}()
		case "retry-sub":
			want = mqttref.SUBSCRIBE
			go func() {
				_, herr = cli.Subscribe(hctx, mqtt.Subscription{Topic: "c11/#", QoS: mqtt.QoS1})
				close(hdone)
			}()
		case "retry-unsub":
			want = mqttref.UNSUBSCRIBE
			go func() { herr = cli.Unsubscribe(hctx, "c11/#"); close(hdone) }()
		}
		if !waitPkt(want, 1) {
			return "inconclusive", "request not seen", nil
		}
		conn.PeerClose("interrupt the first attempt")
		select {
		case <-hdone:
		case <-time.After(scen.Watchdog):
			return fail("blocked-forever", "first attempt did not return after the peer closed")
		}
		rh, ok := herr.(mqtt.ErrorWithRetry)
		if !ok {
			return fail("no-retry-handle", "interrupted request returned %v (%T) which does not implement ErrorWithRetry", herr, herr)
		}
		cli2, conn2 := scen.NewBase(tr, peer)
		conn2.Chunk, conn2.SlowReturn = k.Chunk, k.Slow
		if err := scen.ConnectBase(cli2); err != nil {
			return "inconclusive", err.Error(), nil
		}
		cli2holder.cli, cli2holder.conn = cli2, conn2
		primaryConn = conn2
		before := peer.InCount(want)
		start("Retry("+k.Kind+")", func(ctx context.Context) error { return rh.Retry(ctx, cli2) })
		if k.Cause != "precancel" {
			if _, ok := peer.WaitIn(scen.Watchdog, before+1, func(p *mqttref.Packet) bool { return p.Type == want }); !ok {
				return "inconclusive", "retried request not seen on the fresh client", nil
			}
		}
		defer cli2.Close()
	}
	if k.Multi {
		// three more calls of other kinds blocked on the same connection
		start("Publish-q1#2", func(ctx context.Context) error {
			return cli.Publish(ctx, &mqtt.Message{Topic: "c11/m1", QoS: mqtt.QoS1, Payload: []byte("y")})
		})
		start("Subscribe#2", func(ctx context.Context) error {
			_, err := cli.Subscribe(ctx, mqtt.Subscription{Topic: "c11/m2"})
			return err
		})
		start("Ping#2", func(ctx context.Context) error { return cli.Ping(ctx) })
		if k.Stray {
			time.Sleep(300 * time.Microsecond)
		} else if k.Cause != "precancel" {
			if _, ok := peer.WaitIn(scen.Watchdog, 1, func(p *mqttref.Packet) bool { return p.Type == mqttref.PUBLISH && p.Topic == "c11/m1" }); !ok {
				return "inconclusive", "multi requests not seen", nil
			}
			if _, ok := peer.WaitIn(scen.Watchdog, 1, func(p *mqttref.Packet) bool { return p.Type == mqttref.SUBSCRIBE && p.Subs[0].Filter == "c11/m2" }); !ok {
				return "inconclusive", "multi requests not seen", nil
			}
		}
	}
	// the calls must really be blocked (nothing may have returned yet), except for precancel/deadline
	if k.Cause != "precancel" && k.Cause != "deadline" {
		time.Sleep(200 * time.Microsecond)
		mu.Lock()
		for _, b := range calls {
			if b.ret {
				mu.Unlock()
				return fail("returned-without-cause", "%s returned %v before any cause was applied", b.name, b.err)
			}
		}
		mu.Unlock()
	}
	// apply exactly one cause
	tr.Note("cause: %s", k.Cause)
	target := cli
	if cli2holder.cli != nil {
		target = cli2holder.cli
	}
	switch k.Cause {
	case "cancel":
		for _, c := range cancels {
			c()
		}
	case "localclose":
		target.Close()
	case "peerclose":
		primaryConn.PeerClose("cause")
	case "malformed":
		primaryConn.Send([]byte{0x36, 0x03, 0x00, 0x01, 'x'}, "malformed")
	case "disconnect":
		// Disconnect while requests are pending on the connection: it must return, and so must they
		dres := make(chan error, 1)
		go func() {
			dctx, dcancel := context.WithTimeout(context.Background(), scen.Watchdog)
			defer dcancel()
			cs := tr.Call("Disconnect", "")
			err := target.Disconnect(dctx)
			tr.Ret(cs, "Disconnect", "", err)
			dres <- err
		}()
		select {
		case <-dres:
		case <-time.After(scen.Watchdog + time.Second):
			if scen.CertifyStuck(tr, primaryConn) {
				return fail("blocked-forever", "Disconnect did not return while other calls were waiting for their acknowledgements")
			}
			return "inconclusive", "Disconnect not returned within the watchdog", tr.Dump(40)
		}
	}
	// every blocked call returns
	for _, b := range calls {
		select {
		case err := <-b.done:
			switch k.Cause {
			case "cancel", "precancel":
				if !errors.Is(err, context.Canceled) {
					// a call racing with a prompt answer may succeed; nothing answers here, so it must be the context's error
					return fail("wrong-error", "%s returned %v, want the cancelled context's error", b.name, err)
				}
			case "deadline":
				if !errors.Is(err, context.DeadlineExceeded) {
					return fail("wrong-error", "%s returned %v, want the context's deadline error", b.name, err)
				}
			default:
				if err == nil {
					return fail("nil-after-connection-end", "%s returned nil although the connection ended (%s) before its acknowledgement", b.name, k.Cause)
				}
			}
		case <-time.After(scen.Watchdog):
			if scen.CertifyStuck(tr, primaryConn) {
				return fail("blocked-forever", "%s did not return after cause %q (system certified quiescent)", b.name, k.Cause)
			}
			return "inconclusive", b.name + " not returned within the watchdog", tr.Dump(40)
		}
	}
	// connection-ending causes: Done closes and the reader goroutine exits
	ending := k.Cause == "localclose" || k.Cause == "peerclose" || k.Cause == "malformed" || k.Cause == "disconnect"
	if !ending {
		target.Close()
		cli.Close()
	}
	if k.Kind == "connect" && k.Cause == "precancel" {
		// Connect may not have initialised anything; closing is enough
	}
	if d := target.Done(); d != nil {
		select {
		case <-d:
		case <-time.After(scen.Watchdog):
			return fail("done-not-closed", "connection ended (%s) but Done() is not closed", k.Cause)
		}
	}
	cli.Close()
	for i := 0; ; i++ {
		if serveGoroutines() <= base {
			break
		}
		if i > 2000 {
			return fail("reader-goroutine-leaked", "after the connection ended %d library reader goroutine(s) are still running", serveGoroutines()-base)
		}
		time.Sleep(200 * time.Microsecond)
	}
	return "", "", nil
}

// c11Reconnect: Connect of the reconnecting client blocked while dialling / waiting for CONNACK / backing off.
func c11Reconnect(k c11Case, rng *rand.Rand) (sig, detail string, trace []string) {
	tr := memnet.NewTrace()
	sc := &scen.Scenario{Client: "reconnect"}
	var faults []scen.Fault
	if k.Kind == "rc-connack" {
		for i := 1; i < 50; i++ {
			faults = append(faults, scen.Fault{At: i, Kind: scen.NoConnack})
		}
	}
	br := scen.NewBroker(tr, scen.BrokerCfg{}, faults)
	d, _ := scen.NewDialer(tr, br, sc, nil)
	park := make(chan struct{})
	parked := make(chan struct{}, 4)
	if k.Kind == "rc-dial" {
		d.Before = func(n int) { parked <- struct{}{}; <-park }
	}
	if k.Kind == "rc-backoff" {
		d.FailAll(true)
	}
	var cancelAtActive context.CancelFunc
	if k.Kind == "rc-active" {
		d.OnActive = func(n int) {
			if n == 1 && cancelAtActive != nil {
				cancelAtActive()
			}
		}
	}
	rc, err := mqtt.NewReconnectClient(d, mqtt.WithReconnectWait(time.Hour, time.Hour), mqtt.WithTimeout(time.Hour))
	if err != nil {
		return "inconclusive", err.Error(), nil
	}
	var ctx context.Context
	var cancel context.CancelFunc
	switch k.Cause {
	case "deadline":
		ctx, cancel = context.WithTimeout(context.Background(), 5*time.Millisecond)
	case "precancel":
		ctx, cancel = context.WithCancel(context.Background())
		cancel()
	default:
		ctx, cancel = context.WithCancel(context.Background())
	}
	defer cancel()
	cancelAtActive = cancel
	if k.Kind == "rc-active" {
		// the context is cancelled exactly when the first CONNACK is accepted; Connect must return (nil or the
		// context's error) and a later Disconnect must return as well
		done := make(chan error, 1)
		go func() { _, err := rc.Connect(ctx, "verif-client"); done <- err }()
		select {
		case err := <-done:
			if err != nil && !errors.Is(err, context.Canceled) {
				return "wrong-error:rc-active/cancel", fmt.Sprintf("Connect returned %v", err), tr.Dump(40)
			}
		case <-time.After(scen.Watchdog):
			return "blocked-forever:rc-active/cancel", "ReconnectClient.Connect did not return after its context was cancelled when the first CONNACK was accepted", tr.Dump(40)
		}
		dres := make(chan error, 1)
		go func() {
			dctx, dcancel := context.WithTimeout(context.Background(), scen.Watchdog)
			defer dcancel()
			dres <- rc.Disconnect(dctx)
		}()
		select {
		case err := <-dres:
			if scen.IsDeadline(err) {
				if scen.CertifyStuck(tr, &memnet.Conn{Tr: tr}) {
					return "blocked-forever:rc-active/cancel", "ReconnectClient.Disconnect only returned when its own context expired: the reconnect loop never finished after Connect's context was cancelled at the first CONNACK", tr.Dump(40)
				}
				return "inconclusive", "Disconnect watchdog", nil
			}
		case <-time.After(scen.Watchdog + 2*time.Second):
			return "blocked-forever:rc-active/cancel", "ReconnectClient.Disconnect did not return", tr.Dump(40)
		}
		return "", "", nil
	}
	done := make(chan error, 1)
	go func() {
		cs := tr.Call("ReconnectClient.Connect", "")
		_, err := rc.Connect(ctx, "verif-client")
		tr.Ret(cs, "ReconnectClient.Connect", "", err)
		done <- err
	}()
	fail := func(s, f string, a ...interface{}) (string, string, []string) {
		select {
		case <-park:
		default:
			close(park)
		}
		return s + ":" + k.Kind + "/" + k.Cause, fmt.Sprintf("%s/%s: ", k.Kind, k.Cause) + fmt.Sprintf(f, a...), tr.Dump(40)
	}
	if k.Cause == "cancel" {
		switch k.Kind {
		case "rc-dial":
			select {
			case <-parked:
			case <-time.After(scen.Watchdog):
				return "inconclusive", "dialer not reached", nil
			}
		case "rc-connack":
			if !tr.WaitFor(scen.Watchdog, func() bool {
				for _, e := range tr.Events {
					if e.Kind == memnet.KFault {
						return true
					}
				}
				return false
			}) {
				return "inconclusive", "CONNECT not seen", nil
			}
			// while the handshake is pending, other calls on the client stay bounded by their own contexts
			// (only the queueing calls of the retrying client are held to this here: a BaseClient call such as Ping
			// issued on a client whose Connect is in progress waits for that Connect by design - "requests issued
			// meanwhile wait for the end of Connect" - which is recorded in DESIGN.md section 7, not asserted)
			for _, side := range []string{"Publish"} {
				sctx, scancel := context.WithTimeout(context.Background(), 100*time.Millisecond)
				sdone := make(chan error, 1)
				go func(side string) {
					cs := tr.Call("ReconnectClient."+side, "during handshake")
					var err error
					if side == "Publish" {
						err = rc.Publish(sctx, &mqtt.Message{Topic: "c11/side", QoS: mqtt.QoS1, Payload: []byte("s")})
					} else {
						err = rc.Ping(sctx)
					}
					tr.Ret(cs, "ReconnectClient."+side, "during handshake", err)
					sdone <- err
				}(side)
				select {
				case <-sdone:
					scancel()
				case <-time.After(scen.Watchdog):
					scancel()
					return fail("blocked-forever", "ReconnectClient.%s called while the CONNACK is awaited did not return although its context (100 ms) expired %v ago", side, scen.Watchdog)
				}
			}
		case "rc-backoff":
			if !tr.WaitFor(scen.Watchdog, func() bool {
				for _, e := range tr.Events {
					if e.Kind == memnet.KDialEnd && !e.OK {
						return true
					}
				}
				return false
			}) {
				return "inconclusive", "failed dial not seen", nil
			}
			time.Sleep(300 * time.Microsecond)
		}
		select {
		case err := <-done:
			return fail("returned-without-cause", "Connect returned %v before its context was cancelled", err)
		default:
		}
		cancel()
	}
	var cerr error
	select {
	case cerr = <-done:
	case <-time.After(scen.Watchdog):
		return fail("blocked-forever", "ReconnectClient.Connect did not return after its context ended (the user-side call must return even if the Dialer is still busy)")
	}
	want := context.Canceled
	if k.Cause == "deadline" {
		want = context.DeadlineExceeded
	}
	if !errors.Is(cerr, want) {
		return fail("wrong-error", "Connect returned %v, want %v", cerr, want)
	}
	select {
	case <-park:
	default:
		close(park)
	}
	return "", "", nil
}

func c11Run(c fw.Case, env *fw.Env) fw.Result {
	var p c11Params
	fw.Params(c, &p)
	rng := env.Rng(c)
	r := fw.Result{Counters: map[string]int{}}
	for rep := 0; rep < p.Rep; rep++ {
		for _, k := range p.Cases {
			if rep > 0 {
				k.Chunk = []int{0, 1, 2}[rng.Intn(3)]
				k.Slow = []int{0, 0, 2}[rng.Intn(3)]
			}
			sig, det, trc := c11One(k, rng)
			r.Evals++
			switch {
			case sig == "":
				r.NT = append(r.NT, fw.Hash(k.Kind, k.Cause, k.Multi, k.Stray, k.Chunk, k.Slow))
				r.Counters["cause_"+k.Cause]++
				if r.Sample == nil {
					r.Sample = k
				}
			case sig == "inconclusive":
				r.Counters["inconclusive_runs"]++
				if r.Counters["inconclusive_runs"] > 3 {
					r.Verdict = fw.Inconclusive
					r.Detail = det
					return r
				}
			default:
				r.Verdict = fw.Violated
				r.Sig = sig
				r.Detail = det
				r.Trace = trc
				r.Sample = k
				return r
			}
		}
	}
	return r
}

func init() {
	fw.Register(&fw.Prop{
		ID:    "C11",
		Level: "fault_enumeration",
		Rule: "full enumeration of call kind {Connect waiting CONNACK, Publish QoS1 after write, Publish QoS2 waiting PUBREC / waiting PUBCOMP, Subscribe, Unsubscribe, Ping, the Retry handle of an interrupted QoS1 / QoS2 (first and second phase) / subscribe / unsubscribe request blocked on a fresh client, ReconnectClient.Connect while dialling / waiting CONNACK / backing off} " +
			"x cause {already-cancelled context, context cancel, context deadline, local Close, peer close, malformed packet, Disconnect called meanwhile} x {alone, with three more calls of other kinds blocked on the same connection}; the scripted peer stalls at the step, the harness verifies the call is blocked there (request packet seen, not returned), applies exactly one cause and waits for the return. " +
			"Oracle: every call returns (watchdog => certified-stuck certificate => violation, else inconclusive); context causes => errors.Is(err, ctx.Err()); connection-ending causes => non-nil error, Done() closed and no goroutine with a BaseClient.serve / Connect.func1 frame remains (baseline-subtracted goroutine dump). Thorough repeats the enumeration 40x with seeded read chunking and late-returning writes. Non-trivial: each distinct (kind, cause, multi, chunk, slow).",
		Assumptions: []string{"a call issued while another goroutine's Connect is in progress on the same client is not covered", "handlers that block forever and transports whose Write blocks are outside the domain"},
		Gen:         c11Gen,
		Run:         c11Run,
		Budget:      retryBudget,
	})
}

// c11LateAcks: calls of every kind (two Pings among them) are cancelled while waiting; the broker then answers all
// of them late, every answer twice. The reader goroutine must survive that (a fresh Ping is answered), and the
// connection-ending cause applied afterwards must still close Done() and let the reader exit.
func c11LateAcks(k c11Case, rng *rand.Rand) (sig, detail string, trace []string) {
	base := serveGoroutines()
	tr := memnet.NewTrace()
	peer := &scen.Script{Tr: tr, AutoConnack: true}
	cli, conn := scen.NewBase(tr, peer)
	conn.Chunk = k.Chunk
	id := fmt.Sprintf("late-acks/%s/chunk=%d", k.Cause, k.Chunk)
	fail := func(s, f string, a ...interface{}) (string, string, []string) {
		cli.Close()
		return s + ":late-acks/" + k.Cause, id + ": " + fmt.Sprintf(f, a...), tr.Dump(80)
	}
	if err := scen.ConnectBase(cli); err != nil {
		return "inconclusive", err.Error(), nil
	}
	type call struct {
		name   string
		cancel context.CancelFunc
		done   chan error
	}
	var calls []*call
	start := func(name string, fn func(ctx context.Context) error) {
		ctx, cancel := context.WithCancel(context.Background())
		cl := &call{name: name, cancel: cancel, done: make(chan error, 1)}
		calls = append(calls, cl)
		go func() {
			cs := tr.Call(name, "")
			err := fn(ctx)
			tr.Ret(cs, name, "", err)
			cl.done <- err
		}()
	}
	peer.OnPkt = func(c *memnet.Conn, p *mqttref.Packet, raw []byte) bool {
		if p != nil && p.Type == mqttref.PUBLISH && p.Topic == "c11/rel" {
			c.SendLocked(mqttref.EncAck(mqttref.PUBREC, p.ID), "") // this one is cancelled while waiting for PUBCOMP
		}
		return false
	}
	start("Publish-q1", func(ctx context.Context) error {
		return cli.Publish(ctx, &mqtt.Message{Topic: "c11/a", QoS: mqtt.QoS1, Payload: []byte("x")})
	})
	start("Publish-q2", func(ctx context.Context) error {
		return cli.Publish(ctx, &mqtt.Message{Topic: "c11/b", QoS: mqtt.QoS2, Payload: []byte("x")})
	})
	start("Publish-q2-rel", func(ctx context.Context) error {
		return cli.Publish(ctx, &mqtt.Message{Topic: "c11/rel", QoS: mqtt.QoS2, Payload: []byte("x")})
	})
	start("Subscribe", func(ctx context.Context) error {
		_, err := cli.Subscribe(ctx, mqtt.Subscription{Topic: "c11/#", QoS: mqtt.QoS1})
		return err
	})
	start("Unsubscribe", func(ctx context.Context) error { return cli.Unsubscribe(ctx, "c11/#") })
	start("Ping#1", func(ctx context.Context) error { return cli.Ping(ctx) })
	if _, ok := peer.WaitIn(scen.Watchdog, 1, func(p *mqttref.Packet) bool { return p.Type == mqttref.PINGREQ }); !ok {
		return "inconclusive", "first PINGREQ not seen", nil
	}
	start("Ping#2", func(ctx context.Context) error { return cli.Ping(ctx) })
	want := map[int]int{mqttref.PUBLISH: 3, mqttref.PUBREL: 1, mqttref.SUBSCRIBE: 1, mqttref.UNSUBSCRIBE: 1, mqttref.PINGREQ: 2}
	for t, n := range want {
		t := t
		if _, ok := peer.WaitIn(scen.Watchdog, n, func(p *mqttref.Packet) bool { return p.Type == t }); !ok {
			return "inconclusive", "requests not seen: " + mqttref.TypeName(t), tr.Dump(40)
		}
	}
	// cancel in a seeded order (the later Ping first half of the time)
	order := rng.Perm(len(calls))
	for _, i := range order {
		calls[i].cancel()
		select {
		case err := <-calls[i].done:
			if !errors.Is(err, context.Canceled) {
				return fail("wrong-error", "%s returned %v, want the cancelled context's error", calls[i].name, err)
			}
		case <-time.After(scen.Watchdog):
			if scen.CertifyStuck(tr, conn) {
				return fail("blocked-forever", "%s did not return after its context was cancelled", calls[i].name)
			}
			return "inconclusive", calls[i].name + " not returned within the watchdog", tr.Dump(40)
		}
	}
	// late answers, each twice, in a seeded order
	tr.Mu.Lock()
	var late [][]byte
	for _, in := range peer.In {
		if in.P == nil {
			continue
		}
		switch in.P.Type {
		case mqttref.PUBLISH:
			if in.P.Topic == "c11/a" {
				late = append(late, mqttref.EncAck(mqttref.PUBACK, in.P.ID))
			} else {
				late = append(late, mqttref.EncAck(mqttref.PUBREC, in.P.ID))
			}
		case mqttref.PUBREL:
			late = append(late, mqttref.EncAck(mqttref.PUBCOMP, in.P.ID))
		case mqttref.SUBSCRIBE:
			late = append(late, mqttref.EncSubAck(in.P.ID, []byte{1}))
		case mqttref.UNSUBSCRIBE:
			late = append(late, mqttref.EncAck(mqttref.UNSUBACK, in.P.ID))
		case mqttref.PINGREQ:
			late = append(late, mqttref.EncPingResp())
		}
	}
	tr.Mu.Unlock()
	late = append(late, late...)
	rng.Shuffle(len(late), func(i, j int) { late[i], late[j] = late[j], late[i] })
	for _, raw := range late {
		conn.Send(raw, "late answer to a cancelled call")
	}
	// the reader is still at work: a fresh Ping is answered
	peer.AutoPing = true
	pctx, pcancel := context.WithTimeout(context.Background(), scen.Watchdog)
	cs := tr.Call("Ping", "fresh")
	perr := cli.Ping(pctx)
	tr.Ret(cs, "Ping", "fresh", perr)
	pcancel()
	if perr != nil {
		if scen.IsDeadline(perr) && !scen.CertifyStuck(tr, conn) {
			return "inconclusive", "fresh Ping not answered within the watchdog, system still moving", tr.Dump(40)
		}
		return fail("reader-stalled-by-late-answers", "after late (duplicated) answers to cancelled calls a fresh Ping returned %v: the reader no longer processes incoming packets", perr)
	}
	tr.Note("cause: %s", k.Cause)
	switch k.Cause {
	case "localclose":
		cli.Close()
	case "peerclose":
		conn.PeerClose("cause")
	case "malformed":
		conn.Send([]byte{0x36, 0x03, 0x00, 0x01, 'x'}, "malformed")
	}
	select {
	case <-cli.Done():
	case <-time.After(scen.Watchdog):
		return fail("done-not-closed", "connection ended (%s) but Done() is not closed", k.Cause)
	}
	cli.Close()
	for i := 0; ; i++ {
		if serveGoroutines() <= base {
			break
		}
		if i > 2000 {
			return fail("reader-goroutine-leaked", "after the connection ended %d library reader goroutine(s) are still running", serveGoroutines()-base)
		}
		time.Sleep(200 * time.Microsecond)
	}
	return "", "", nil
}

// c11Switch: a RetryClient driven by hand. A request is in flight on connection 1 when SetClient installs
// connection 2 (make-before-break); the request then completes on connection 1. Connect on the new client,
// further requests and Disconnect must all return (Connect and Disconnect within their contexts).
func c11Switch(k c11Case, rng *rand.Rand) (sig, detail string, trace []string) {
	tr := memnet.NewTrace()
	peer := &scen.Script{Tr: tr, AutoConnack: true}
	id := fmt.Sprintf("%s/%s", k.Kind, k.Cause)
	retry := &mqtt.RetryClient{}
	cli1, conn1 := scen.NewBase(tr, peer)
	fail := func(s, f string, a ...interface{}) (string, string, []string) {
		cli1.Close()
		return s + ":" + k.Kind + "/" + k.Cause, id + ": " + fmt.Sprintf(f, a...), tr.Dump(80)
	}
	bg := context.Background()
	retry.SetClient(bg, cli1)
	if _, err := retry.Connect(bg, "verif"); err != nil {
		return "inconclusive", err.Error(), nil
	}
	var want int
	switch k.Kind {
	case "switch-pub1":
		want = mqttref.PUBLISH
		if err := retry.Publish(bg, &mqtt.Message{Topic: "c11/s", QoS: mqtt.QoS1, Payload: []byte("x")}); err != nil {
			return "inconclusive", err.Error(), nil
		}
	case "switch-pub2":
		want = mqttref.PUBLISH
		if err := retry.Publish(bg, &mqtt.Message{Topic: "c11/s", QoS: mqtt.QoS2, Payload: []byte("x")}); err != nil {
			return "inconclusive", err.Error(), nil
		}
	case "switch-sub":
		want = mqttref.SUBSCRIBE
		if _, err := retry.Subscribe(bg, mqtt.Subscription{Topic: "c11/s", QoS: mqtt.QoS1}); err != nil {
			return "inconclusive", err.Error(), nil
		}
	}
	in, ok := peer.WaitIn(scen.Watchdog, 1, func(p *mqttref.Packet) bool { return p.Type == want })
	if !ok {
		return "inconclusive", "request not seen on connection 1", tr.Dump(30)
	}
	// make-before-break: the new client is installed while the request is still waiting on the old one
	cli2, conn2 := scen.NewBase(tr, peer)
	defer cli2.Close()
	cs := tr.Call("SetClient", "2")
	retry.SetClient(bg, cli2)
	tr.Ret(cs, "SetClient", "2", nil)
	// now the old connection delivers the acknowledgement(s)
	peer.AutoAck = true
	conn1.Send(scen.AckFor(in[0].P), "acknowledgement on the replaced connection")
	// let the request finish on the old connection first (for QoS 2: PUBREL/PUBCOMP follow through AutoAck)
	lastAck := mqttref.PUBACK
	switch k.Kind {
	case "switch-pub2":
		lastAck = mqttref.PUBCOMP
	case "switch-sub":
		lastAck = mqttref.SUBACK
	}
	if rng.Intn(4) != 0 {
		tr.WaitFor(scen.Watchdog, func() bool {
			for _, e := range tr.Events {
				if e.Kind == memnet.KConsumed && e.Conn == conn1.ID && e.Pkt != nil && e.Pkt.Type == lastAck {
					return true
				}
			}
			return false
		})
		time.Sleep(time.Duration(rng.Intn(400)) * time.Microsecond)
	}
	// Connect on the new client, bounded by its context
	call := func(name string, d time.Duration, fn func(ctx context.Context) error) (error, bool) {
		var ctx context.Context
		var cancel context.CancelFunc
		if k.Cause == "deadline" {
			ctx, cancel = context.WithTimeout(bg, d)
		} else {
			ctx, cancel = context.WithCancel(bg)
			t := time.AfterFunc(d, cancel)
			defer t.Stop()
		}
		defer cancel()
		done := make(chan error, 1)
		go func() {
			cs := tr.Call(name, "")
			err := fn(ctx)
			tr.Ret(cs, name, "", err)
			done <- err
		}()
		select {
		case err := <-done:
			return err, true
		case <-time.After(d + scen.Watchdog):
			return nil, false
		}
	}
	steps := []struct {
		name string
		fn   func(ctx context.Context) error
	}{
		{"Connect", func(ctx context.Context) error { _, err := retry.Connect(ctx, "verif"); return err }},
		{"Publish", func(ctx context.Context) error {
			return retry.Publish(ctx, &mqtt.Message{Topic: "c11/after", QoS: mqtt.QoS1, Payload: []byte("y")})
		}},
		{"Ping", func(ctx context.Context) error { return retry.Ping(ctx) }},
		{"Disconnect", func(ctx context.Context) error { return retry.Disconnect(ctx) }},
	}
	peer.AutoPing = true
	for _, st := range steps {
		err, returned := call(st.name, 300*time.Millisecond, st.fn)
		if !returned {
			if scen.CertifyStuck(tr, conn2) {
				return fail("blocked-forever", "RetryClient.%s did not return although its context ended %v ago (a request had been in flight on the replaced connection and completed there)", st.name, scen.Watchdog)
			}
			return "inconclusive", st.name + " not returned within the watchdog", tr.Dump(40)
		}
		_ = err // success or the context's error: both are prompt returns
	}
	return "", "", nil
}

// c11ConnectWriteFail: the transport was dialled but the peer is gone before CONNECT is written. Connect returns an
// error; the connection has ended, so Done() is closed and no reader goroutine is left behind.
func c11ConnectWriteFail(k c11Case) (sig, detail string, trace []string) {
	base := serveGoroutines()
	tr := memnet.NewTrace()
	peer := &scen.Script{Tr: tr, AutoConnack: true}
	cli, conn := scen.NewBase(tr, peer)
	conn.SlowReturn = k.Slow
	conn.PeerClose("peer gone between dial and CONNECT")
	fail := func(s, f string, a ...interface{}) (string, string, []string) {
		cli.Close()
		return s + ":connect-writefail", "connect-writefail: " + fmt.Sprintf(f, a...), tr.Dump(40)
	}
	err := scen.ConnectBase(cli)
	if errors.Is(err, scen.ErrConnectHung) {
		if scen.CertifyStuck(tr, conn) {
			return fail("blocked-forever", "Connect never returned although the CONNECT write failed")
		}
		return "inconclusive", err.Error(), nil
	}
	if err == nil {
		return fail("nil-after-connection-end", "Connect returned nil although the peer had closed before CONNECT could be written")
	}
	if d := cli.Done(); d != nil {
		select {
		case <-d:
		case <-time.After(scen.Watchdog):
			return fail("done-not-closed", "Connect failed (%v) because the connection was gone, but Done() is still open %v later", err, scen.Watchdog)
		}
	}
	for i := 0; ; i++ {
		if serveGoroutines() <= base {
			break
		}
		if i > 2000 {
			cli.Close()
			return fail("reader-goroutine-leaked", "after the failed Connect %d library reader goroutine(s) are still running", serveGoroutines()-base)
		}
		time.Sleep(200 * time.Microsecond)
	}
	cli.Close()
	return "", "", nil
}

// c11DisconnectHandler: Disconnect (100 ms context) while the message handler is busy with an inbound PUBLISH - called
// from another goroutine, or from inside the handler itself. It returns (at the latest when its context ends); once
// the handler has returned, Done() closes and the reader goroutine exits.
func c11DisconnectHandler(k c11Case) (sig, detail string, trace []string) {
	base := serveGoroutines()
	tr := memnet.NewTrace()
	peer := &scen.Script{Tr: tr, AutoConnack: true}
	cli, conn := scen.NewBase(tr, peer)
	gate := make(chan struct{})
	entered := make(chan struct{}, 1)
	dres := make(chan error, 1)
	disconnect := func() {
		dctx, dcancel := context.WithTimeout(context.Background(), 100*time.Millisecond)
		defer dcancel()
		cs := tr.Call("Disconnect", k.Kind)
		err := cli.Disconnect(dctx)
		tr.Ret(cs, "Disconnect", k.Kind, err)
		dres <- err
	}
	cli.Handle(mqtt.HandlerFunc(func(m *mqtt.Message) {
		entered <- struct{}{}
		if k.Kind == "disconnect-from-handler" {
			disconnect()
			return
		}
		<-gate
	}))
	fail := func(s, f string, a ...interface{}) (string, string, []string) {
		select {
		case <-gate:
		default:
			close(gate)
		}
		cli.Close()
		return s + ":" + k.Kind, k.Kind + ": " + fmt.Sprintf(f, a...), tr.Dump(40)
	}
	if err := scen.ConnectBase(cli); err != nil {
		return "inconclusive", err.Error(), nil
	}
	conn.Send(mqttref.EncPublish("c11/in", []byte("x"), 0, false, false, 0), "inbound")
	select {
	case <-entered:
	case <-time.After(scen.Watchdog):
		return "inconclusive", "handler not entered", nil
	}
	if k.Kind == "disconnect-handler-busy" {
		go disconnect()
	}
	select {
	case <-dres:
	case <-time.After(scen.Watchdog):
		return fail("blocked-forever", "Disconnect did not return although its context (100 ms) expired %v ago, while the handler was busy with an inbound message", scen.Watchdog)
	}
	close(gate)
	select {
	case <-cli.Done():
	case <-time.After(scen.Watchdog):
		return fail("done-not-closed", "Disconnect returned and the handler finished, but Done() is not closed")
	}
	cli.Close()
	for i := 0; ; i++ {
		if serveGoroutines() <= base {
			break
		}
		if i > 2000 {
			return fail("reader-goroutine-leaked", "%d library reader goroutine(s) still running", serveGoroutines()-base)
		}
		time.Sleep(200 * time.Microsecond)
	}
	return "", "", nil
}
