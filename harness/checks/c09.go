package checks

import (
	"context"
	"errors"
	"fmt"
	"math/rand"
	"strings"
	"sync"
	"time"

	mqtt "github.com/at-wat/mqtt-go"
	"verif/fw"
	"verif/memnet"
	"verif/scen"
)

type c09Params struct {
	Mode string `json:"mode"` // life | stop
	N    int    `json:"n"`
	Base int    `json:"base"`
	Max  int    `json:"max"`
	Part int    `json:"part"`
}

var c09Waits = [][2]int{{1, 1}, {1, 8}, {2, 16}, {4, 4}, {8, 2}, {3, 5}}

func c09Gen(tier string, seed int64) []fw.Case {
	n := scale(tier, 14, 2500)
	var cs []fw.Case
	for i, w := range c09Waits {
		for part := 0; part < 3; part++ {
			cs = append(cs, fw.Mk(fmt.Sprintf("life/base%d-max%d/%d", w[0], w[1], part), c09Params{Mode: "life", N: n, Base: w[0], Max: w[1], Part: part + 3*i}))
		}
	}
	for i := 0; i < 8; i++ {
		cs = append(cs, fw.Mk(fmt.Sprintf("stop/%d", i), c09Params{Mode: "stop", N: scale(tier, 3, 300), Part: i}))
	}
	return cs
}

// lifeScenario draws a sequence of connection-level faults.
func lifeScenario(rng *rand.Rand, base, max int) scen.Scenario {
	sc := scen.Scenario{Client: "reconnect", Cfg: scen.BrokerCfg{Method: "A", Session: []string{"keep", "lose"}[rng.Intn(2)]}, WaitBaseMs: base, WaitMaxMs: max, TimeoutMs: 12, RichConnect: rng.Intn(2) == 0}
	var steps []scen.Step
	n := 1 + rng.Intn(8)
	tag := 0
	pubStep := func() scen.Step {
		tag++
		return scen.Step{Op: "pub", QoS: byte(1 + rng.Intn(2)), Tag: fmt.Sprintf("m%d", tag), Wait: rng.Intn(2) == 0}
	}
	usePing := rng.Intn(3) == 0
	if usePing {
		sc.PingMs = 4
	}
	if usePing && rng.Intn(3) == 0 {
		// the very first connection (the one made while the caller's Connect was running) goes deaf
		steps = append(steps, pubStep(), scen.Step{Op: "deafconn"})
	}
	for i := 0; i < n; i++ {
		switch rng.Intn(7) {
		case 0:
			steps = append(steps, pubStep(), scen.Step{Op: "cut"})
		case 1:
			steps = append(steps, scen.Step{Op: "garbage"}, pubStep())
		case 2:
			steps = append(steps, scen.Step{Op: "down"}, scen.Step{Op: "sleep", Ms: 1 + rng.Intn(3*max+2)}, scen.Step{Op: "up"}, pubStep())
		case 3:
			if usePing && rng.Intn(2) == 0 {
				// the current connection goes deaf for PINGREQ only: nothing but the keep-alive can end it
				steps = append(steps, scen.Step{Op: "deafconn"}, pubStep())
			} else if usePing {
				steps = append(steps, scen.Step{Op: "silentping"}, scen.Step{Op: "sleep", Ms: 20 + rng.Intn(10)}, scen.Step{Op: "pingok"}, pubStep())
			} else {
				steps = append(steps, pubStep())
			}
		default:
			steps = append(steps, pubStep())
		}
	}
	sc.Steps = steps
	// connection-level faults on random ordinals (CONNECT-only kinds do nothing on other packets)
	nf := rng.Intn(7)
	used := map[int]bool{}
	for j := 0; j < nf; j++ {
		at := 1 + rng.Intn(3*n+6)
		if used[at] {
			continue
		}
		used[at] = true
		var kind string
		switch rng.Intn(6) {
		case 0:
			kind = fmt.Sprintf("refuse:%d", 1+rng.Intn(5))
		case 1:
			kind = fmt.Sprintf("refuseopen:%d", 1+rng.Intn(5)) // the broker refuses but leaves the connection open
		case 2:
			kind = scen.NoConnack
		default:
			kind = scen.CutKinds[rng.Intn(4)]
		}
		sc.Faults = append(sc.Faults, scen.Fault{At: at, Kind: kind})
	}
	for j := rng.Intn(4); j > 0; j-- {
		sc.DialFail = append(sc.DialFail, 1+rng.Intn(8))
	}
	if rng.Intn(4) == 0 { // consecutive failures at the very start
		sc.Faults = append(sc.Faults, scen.Fault{At: 1, Kind: "refuse:3"}, scen.Fault{At: 2, Kind: scen.NoConnack}, scen.Fault{At: 3, Kind: scen.CutBeforeErr}, scen.Fault{At: 4, Kind: "refuseopen:5"})
		sc.DialFail = append(sc.DialFail, 1, 2)
	}
	if rng.Intn(12) == 0 && max <= 4 {
		// a long outage: many consecutive dial failures (the back-off must stay at its cap, not wrap around)
		k := 45 + rng.Intn(30)
		for j := 2; j < 2+k; j++ {
			sc.DialFail = append(sc.DialFail, j)
		}
		sc.Faults = append(sc.Faults, scen.Fault{At: 2, Kind: scen.CutAfter})
	}
	return sc
}

func c09Run(c fw.Case, env *fw.Env) fw.Result {
	var p c09Params
	fw.Params(c, &p)
	rng := env.Rng(c)
	r := fw.Result{Counters: map[string]int{}}
	switch p.Mode {
	case "life":
		incon := 0
		for i := 0; i < p.N; i++ {
			sc := lifeScenario(rng, p.Base, p.Max)
			run := scen.Exec(&sc)
			r.Evals++
			a := scen.Analyse(run)
			f, redials, checked := a.Lifecycle(p.Base, p.Max)
			r.Counters["redials"] += redials
			r.Counters["backoff_gaps_checked"] += checked
			if run.Inconcl != "" && len(f) == 0 {
				incon++
				r.Counters["inconclusive_runs"]++
				if incon > 2 {
					r.Verdict = fw.Inconclusive
					r.Detail = run.Inconcl + "\n" + strings.Join(run.Tr.Dump(40), "\n")
					return r
				}
				continue
			}
			for _, e := range run.Tr.Snapshot() {
				if e.Kind == memnet.KNote && e.S == "connection never answers PINGREQ again" {
					r.Counters["connections_gone_deaf_for_ping"]++
				}
			}
			for _, id := range run.DeafOpen {
				f = append(f, scen.Finding{Sig: "keepalive-timeout-not-followed-by-redial", Detail: fmt.Sprintf("connection %d stopped answering PINGREQ (keep-alive %dms, timeout %dms) and %v later the client still holds on to it: no close, no new connection", id, sc.PingMs, sc.TimeoutMs, scen.Watchdog/2)})
			}
			if run.Stuck {
				f = append(f, scen.Finding{Sig: "never-reconnects", Detail: "after the faults stopped the client never established a connection again (certified stuck)\n" + run.GoDump})
			}
			if len(f) > 0 {
				r.Verdict = fw.Violated
				r.Sig = f[0].Sig
				r.Detail = fmt.Sprintf("%s\nsteps=%v faults=%v dial_fail=%v base=%dms max=%dms ping=%dms\nfired: %s", f[0].Detail, sc.Steps, sc.Faults, sc.DialFail, p.Base, p.Max, sc.PingMs, a.FaultShape())
				for _, x := range f[1:] {
					r.More = append(r.More, fw.Finding{Sig: x.Sig, Detail: x.Detail})
				}
				r.Trace = tailAll(run.Tr, 150)
				r.Sample = sc
				return r
			}
			if redials > 0 {
				r.NT = append(r.NT, fw.Hash("life", p.Base, p.Max, a.FaultShape(), fmt.Sprint(sc.Steps), sc.DialFail))
				if r.Sample == nil {
					r.Sample = map[string]interface{}{"steps": fmt.Sprint(sc.Steps), "faults_fired": a.FaultShape(), "dial_fail": sc.DialFail, "base_ms": p.Base, "max_ms": p.Max, "redials": redials, "backoff_gaps_checked": checked}
				}
			}
		}
	case "stop":
		for i := 0; i < p.N; i++ {
			for _, phase := range []string{"connected", "backoff-never-connected", "backoff-after-connected", "in-dialer-first", "in-dialer-later", "waiting-connack", "waiting-connack-forever", "cancel-before-first", "cancel-in-dialer", "cancel-at-first-active"} {
				sig, det, trc := c09Stop(rng, phase)
				r.Evals++
				if sig == "inconclusive" {
					r.Counters["inconclusive_runs"]++
					continue
				}
				if sig != "" {
					r.Verdict = fw.Violated
					r.Sig = sig + ":" + phase
					r.Detail = det
					r.Trace = trc
					return r
				}
				r.Counters["stop_"+phase]++
				r.NT = append(r.NT, fw.Hash("stop", phase, c.Idx, i))
			}
		}
		r.Sample = map[string]interface{}{"mode": "stop", "phases": "Disconnect/cancel steered into: connected, back-off wait (never connected / after a connection), inside DialContext (first / later), waiting for CONNACK, cancel before first success"}
	}
	return r
}

func tailAll(tr *memnet.Trace, n int) []string { return tr.Dump(n) }

// c09Stop steers Disconnect (or context cancellation) into one phase of the reconnect loop.
func c09Stop(rng *rand.Rand, phase string) (sig, detail string, trace []string) {
	tr := memnet.NewTrace()
	sc := &scen.Scenario{Client: "reconnect"}
	var faults []scen.Fault
	if phase == "waiting-connack" || phase == "waiting-connack-forever" {
		faults = []scen.Fault{{At: 1, Kind: scen.NoConnack}}
	}
	connectTimeout := 40 * time.Millisecond
	if phase == "waiting-connack-forever" {
		connectTimeout = time.Hour // nothing but Disconnect can end the wait for the CONNACK
	}
	br := scen.NewBroker(tr, scen.BrokerCfg{}, faults)
	d, _ := scen.NewDialer(tr, br, sc, nil)
	base, max := 2, 4
	if phase == "cancel-before-first" {
		base, max = 60000, 60000 // the back-off select cannot legitimately pick the timer
	}
	park := make(chan struct{})
	parked := make(chan int, 16)
	parkAt := 0
	switch phase {
	case "in-dialer-first", "cancel-in-dialer":
		parkAt = 1
	case "in-dialer-later":
		parkAt = 2
	}
	d.Before = func(n int) {
		if n == parkAt {
			parked <- n
			<-park
		}
	}
	if phase == "backoff-never-connected" || phase == "cancel-before-first" {
		d.FailAll(true)
	}
	var cancelConnect context.CancelFunc
	if phase == "cancel-at-first-active" {
		// the Connect context is cancelled from inside the ConnState(Active) callback of the first
		// connection, i.e. exactly when the first CONNACK has been accepted
		d.OnActive = func(k int) {
			if k == 1 && cancelConnect != nil {
				tr.Note("cancelling the Connect context inside ConnState(Active)")
				cancelConnect()
			}
		}
	}
	rc, err := mqtt.NewReconnectClient(d, mqtt.WithReconnectWait(time.Duration(base)*time.Millisecond, time.Duration(max)*time.Millisecond), mqtt.WithTimeout(connectTimeout))
	if err != nil {
		return "inconclusive", err.Error(), nil
	}
	ctx, cancel := context.WithCancel(context.Background())
	defer cancel()
	cancelConnect = cancel
	connDone := make(chan error, 1)
	go func() {
		cs := tr.Call("Connect", "")
		_, err := rc.Connect(ctx, "verif-client")
		tr.Ret(cs, "Connect", "", err)
		connDone <- err
	}()
	fail := func(s, f string, a ...interface{}) (string, string, []string) {
		select {
		case <-park:
		default:
			close(park)
		}
		return s, fmt.Sprintf(f, a...), tr.Dump(60)
	}
	countDials := func() int {
		n := 0
		for _, e := range tr.Snapshot() {
			if e.Kind == memnet.KDialStart {
				n++
			}
		}
		return n
	}
	waitConnected := func() bool {
		select {
		case err := <-connDone:
			return err == nil
		case <-time.After(scen.Watchdog):
			return false
		}
	}
	// bring the loop into the phase
	switch phase {
	case "connected":
		if !waitConnected() {
			return "inconclusive", "not connected", nil
		}
	case "backoff-after-connected":
		if !waitConnected() {
			return "inconclusive", "not connected", nil
		}
		d.FailAll(true)
		tr.Mu.Lock()
		br.CutNowLocked("cut to enter back-off")
		tr.Mu.Unlock()
		if !tr.WaitFor(scen.Watchdog, func() bool {
			n := 0
			for _, e := range tr.Events {
				if e.Kind == memnet.KDialEnd && !e.OK {
					n++
				}
			}
			return n >= 1+rng.Intn(3)
		}) {
			return "inconclusive", "no failed redial seen", nil
		}
	case "backoff-never-connected":
		if !tr.WaitFor(scen.Watchdog, func() bool {
			n := 0
			for _, e := range tr.Events {
				if e.Kind == memnet.KDialEnd && !e.OK {
					n++
				}
			}
			return n >= 1+rng.Intn(3)
		}) {
			return "inconclusive", "no failed dial seen", nil
		}
	case "cancel-before-first":
		if !tr.WaitFor(scen.Watchdog, func() bool {
			for _, e := range tr.Events {
				if e.Kind == memnet.KDialEnd && !e.OK {
					return true
				}
			}
			return false
		}) {
			return "inconclusive", "no failed dial seen", nil
		}
		time.Sleep(time.Millisecond) // let the loop reach its back-off select
	case "in-dialer-first", "cancel-in-dialer":
		select {
		case <-parked:
		case <-time.After(scen.Watchdog):
			return "inconclusive", "dialer not reached", nil
		}
	case "in-dialer-later":
		if !waitConnected() {
			return "inconclusive", "not connected", nil
		}
		tr.Mu.Lock()
		br.CutNowLocked("cut to force a redial")
		tr.Mu.Unlock()
		select {
		case <-parked:
		case <-time.After(scen.Watchdog):
			return "inconclusive", "second dial not reached", nil
		}
	case "cancel-at-first-active":
		// Connect returns either nil (it saw the established connection first) or the context's error
		select {
		case err := <-connDone:
			if err != nil && !errors.Is(err, context.Canceled) {
				return fail("cancel-error", "Connect returned %v", err)
			}
		case <-time.After(scen.Watchdog):
			return fail("connect-does-not-return-on-cancel", "Connect did not return although its context was cancelled when the first CONNACK was accepted")
		}
	case "waiting-connack", "waiting-connack-forever":
		if !tr.WaitFor(scen.Watchdog, func() bool {
			for _, e := range tr.Events {
				if e.Kind == memnet.KFault {
					return true
				}
			}
			return false
		}) {
			return "inconclusive", "CONNECT not seen", nil
		}
	}
	dialsBefore := countDials()
	if phase == "cancel-in-dialer" {
		// the context is cancelled while the first dial is in progress; the dial then succeeds
		tr.Note("cancelling the Connect context while DialContext is running")
		cancel()
		var cerr error
		select {
		case cerr = <-connDone:
		case <-time.After(scen.Watchdog):
			return fail("connect-does-not-return-on-cancel", "Connect did not return after its context was cancelled during the first dial")
		}
		if !errors.Is(cerr, context.Canceled) {
			return fail("cancel-error", "Connect returned %v, want the context's error", cerr)
		}
		close(park) // the dial completes and hands out a transport
		// that transport must be closed by the library and no further dial may start
		closedOK := tr.WaitFor(2*time.Second, func() bool {
			if len(tr.Conns) == 0 {
				return false
			}
			for _, c := range tr.Conns {
				if !c.LocalClosed {
					return false
				}
			}
			return true
		})
		time.Sleep(3 * time.Millisecond)
		if n := countDials(); n != dialsBefore {
			return fail("dial-after-cancel", "%d further dial(s) started after the Connect context was cancelled before the first success", n-dialsBefore)
		}
		if !closedOK {
			// the cancellation can lose the race against the CONNACK of that dial: Connect (library-internal)
			// then succeeded and the client legitimately stays connected in the background
			accepted := false
			for _, e := range tr.Snapshot() {
				if e.Kind == memnet.KState && e.S == "Active" {
					accepted = true
				}
			}
			if accepted {
				return "", "", nil
			}
			if scen.CertifyStuck(tr, &memnet.Conn{Tr: tr}) {
				return fail("transport-left-open-after-cancel", "the transport handed out by the dial that was in progress when the context was cancelled was never closed by the library")
			}
			return "inconclusive", "transport not closed yet", nil
		}
		return "", "", nil
	}
	if phase == "cancel-before-first" {
		tr.Note("cancelling the Connect context")
		cancel()
		var cerr error
		select {
		case cerr = <-connDone:
		case <-time.After(scen.Watchdog):
			return fail("connect-does-not-return-on-cancel", "Connect did not return after its context was cancelled before the first connection")
		}
		if !errors.Is(cerr, context.Canceled) {
			return fail("cancel-error", "Connect returned %v, want the context's error", cerr)
		}
		time.Sleep(5 * time.Millisecond)
		if n := countDials(); n != dialsBefore {
			return fail("dial-after-cancel", "%d dial(s) started after the Connect context was cancelled before the first success", n-dialsBefore)
		}
		return "", "", nil
	}
	// Disconnect, possibly while a dial is parked
	type dres struct {
		err   error
		panic interface{}
	}
	dch := make(chan dres, 1)
	var once sync.Once
	go func() {
		defer func() {
			if e := recover(); e != nil {
				once.Do(func() { dch <- dres{panic: e} })
			}
		}()
		dto := scen.Watchdog
		if phase == "waiting-connack-forever" {
			// the library cannot abandon a CONNECT in progress, so Disconnect lasts as long as its context allows;
			// what it must not do is outlive that context
			dto = 200 * time.Millisecond
		}
		dctx, dcancel := context.WithTimeout(context.Background(), dto)
		defer dcancel()
		cs := tr.Call("Disconnect", "")
		err := rc.Disconnect(dctx)
		tr.Ret(cs, "Disconnect", "", err)
		once.Do(func() { dch <- dres{err: err} })
	}()
	if parkAt > 0 {
		time.Sleep(300 * time.Microsecond) // Disconnect is under way while the dial is parked
		close(park)
	}
	var res dres
	select {
	case res = <-dch:
	case <-time.After(scen.Watchdog + 2*time.Second):
		if phase == "waiting-connack-forever" {
			return fail("disconnect-does-not-return", "Disconnect called while the client waits for a CONNACK (no connect timeout) did not return although its own context expired %v ago", scen.Watchdog)
		}
		return fail("disconnect-does-not-return", "Disconnect did not return")
	}
	if res.panic != nil {
		return fail("disconnect-panics", "Disconnect panicked: %v", res.panic)
	}
	time.Sleep(time.Duration(3*max) * time.Millisecond)
	retSeq := -1
	for _, e := range tr.Snapshot() {
		if e.Kind == memnet.KRet && e.S == "Disconnect" {
			retSeq = e.Seq
		}
		if e.Kind == memnet.KDialStart && retSeq >= 0 {
			return fail("dial-after-disconnect", "dial #%d started after Disconnect had returned (err=%v)", e.N, res.err)
		}
	}
	if res.err != nil && errors.Is(res.err, context.DeadlineExceeded) && phase != "waiting-connack-forever" {
		if !scen.CertifyStuck(tr, &memnet.Conn{Tr: tr}) {
			return "inconclusive", "Disconnect timed out while the system was still moving", tr.Dump(40)
		}
		return fail("disconnect-does-not-return", "Disconnect only returned when its own context expired: %v", res.err)
	}
	_ = dialsBefore
	return "", "", nil
}

func init() {
	fw.Register(&fw.Prop{
		ID:    "C09",
		Level: "fault_enumeration",
		Rule: "life: seeded sequences of connection-ending causes (idle peer close, malformed packet from the broker, refused CONNACK codes 1-5, absent CONNACK with a connect timeout, cuts of 4 kinds on any request packet, dial errors incl. runs of consecutive failures, keep-alive silence, outages of random length) on the real ReconnectClient with back-off (base,max) in {(1,1),(1,8),(2,16),(4,4),(8,2),(3,5)} ms; " +
			"monitor: at every dial.start all earlier transports have been closed by the library; first packet of every connection is exactly one CONNECT with identical client id/options; the gap between the end of an attempt (dial error return / first library Close of that transport) and the next dial.start is >= min(base*2^k, max) with k reset by a successful connect (sound lower bound); after faults stop a connection is established (sentinel). " +
			"stop: Disconnect steered into every phase (connected, back-off wait before/after a first connection, inside DialContext of the first/a later dial, waiting for CONNACK), cancellation before the first success with a 60 s back-off, and cancellation while the first dial is in progress (the transport it hands out must be closed unless that connection got established, no further dial), cancellation exactly when the first CONNACK is accepted (a later Disconnect must still return); Disconnect must return without panic, no dial.start afterwards. Non-trivial: runs with >=1 redial; each stop phase executed.",
		Assumptions: []string{"time.After never fires early on the monotonic clock the harness also reads, so lower bounds are sound under load", "absence of further dials after Disconnect is observed for 3x the maximum back-off"},
		Gen:         c09Gen,
		Run:         c09Run,
		Budget:      retryBudget,
	})
}
