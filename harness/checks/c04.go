package checks

import (
	"fmt"
	"math/rand"
	"runtime"

	mqtt "github.com/at-wat/mqtt-go"
	"verif/fw"
	"verif/memnet"
	"verif/mqttref"
	"verif/scen"
)

// inItem is one packet of an inbound sequence.
type inItem struct {
	Kind string `json:"k"` // q0 q1 q2 rel
	ID   uint16 `json:"id,omitempty"`
	Dup  bool   `json:"dup,omitempty"`
	Ret  bool   `json:"ret,omitempty"`
	Gen  int    `json:"gen"` // message generation: identifies the logical message (topic carries it)
	Pl   int    `json:"pl"`  // payload length
}

func (it inItem) String() string {
	switch it.Kind {
	case "rel":
		return fmt.Sprintf("REL(%d)", it.ID)
	case "q0":
		return fmt.Sprintf("q0#%d", it.Gen)
	}
	d := ""
	if it.Dup {
		d = "d"
	}
	return fmt.Sprintf("%s(%d%s)#%d", it.Kind, it.ID, d, it.Gen)
}

func (it inItem) topic() string {
	if it.Gen%3 == 1 {
		return fmt.Sprintf("t/é日本/%d", it.Gen) // multi-byte topic: byte length differs from rune count
	}
	return fmt.Sprintf("t/%d", it.Gen)
}
func (it inItem) payload() []byte {
	b := make([]byte, it.Pl)
	for i := range b {
		b[i] = byte(it.Gen*31 + i)
	}
	return b
}
func (it inItem) encode() []byte {
	switch it.Kind {
	case "rel":
		return mqttref.EncAck(mqttref.PUBREL, it.ID)
	case "q0":
		return mqttref.EncPublish(it.topic(), it.payload(), 0, false, it.Ret, 0)
	case "q1":
		return mqttref.EncPublish(it.topic(), it.payload(), 1, it.Dup, it.Ret, it.ID)
	case "q2":
		return mqttref.EncPublish(it.topic(), it.payload(), 2, it.Dup, it.Ret, it.ID)
	}
	panic("kind")
}

type c04Params struct {
	Mode    string   `json:"mode"` // exh | rand
	Len     int      `json:"len,omitempty"`
	Part    int      `json:"part,omitempty"`
	Of      int      `json:"of,omitempty"`
	N       int      `json:"n,omitempty"`
	Seq     []inItem `json:"seq,omitempty"` // replay of one sequence
	Chunk   int      `json:"chunk,omitempty"`
	Handler bool     `json:"handler,omitempty"`
	Step    bool     `json:"step,omitempty"`
}

// exhaustive alphabet: two q1 ids, two q2 ids (+dup retransmission of one),
// release of a, b and of an id that is never published.
var c04Alpha = []inItem{
	{Kind: "q0"}, {Kind: "q1", ID: 1}, {Kind: "q1", ID: 2, Dup: true},
	{Kind: "q2", ID: 1}, {Kind: "q2", ID: 2}, {Kind: "q2", ID: 1, Dup: true},
	{Kind: "rel", ID: 1}, {Kind: "rel", ID: 2}, {Kind: "rel", ID: 3},
}

func c04Gen(tier string, seed int64) []fw.Case {
	var cs []fw.Case
	maxLen, parts, nrand := 4, 16, 250
	if tier == "thorough" {
		maxLen, parts, nrand = 7, 256, 40000
	}
	for l := 1; l <= maxLen; l++ {
		p := parts
		if l <= 2 {
			p = 1
		}
		for i := 0; i < p; i++ {
			cs = append(cs, fw.Mk(fmt.Sprintf("exh-len%d-%d/%d", l, i, p), c04Params{Mode: "exh", Len: l, Part: i, Of: p}))
		}
	}
	for i := 0; i < 16; i++ {
		cs = append(cs, fw.Mk(fmt.Sprintf("rand-%d", i), c04Params{Mode: "rand", N: nrand}))
	}
	for i := 0; i < 4; i++ {
		cs = append(cs, fw.Mk(fmt.Sprintf("through-retrying-clients-%d", i), c04Params{Mode: "retry", N: nrand / 10, Part: i}))
	}
	return cs
}

// assignGens gives every PUBLISH a message generation: a q2 PUBLISH of an id
// that is currently held (not yet released) is a retransmission of the same
// message and keeps its generation; everything else is a new message.
func assignGens(seq []inItem) {
	held := map[uint16]int{}
	first := map[int]inItem{}
	gen := 0
	for i := range seq {
		it := &seq[i]
		switch it.Kind {
		case "q0", "q1":
			gen++
			it.Gen = gen
		case "q2":
			if g, ok := held[it.ID]; ok {
				it.Gen = g // retransmission: same message (content), DUP may differ
				it.Pl, it.Ret = first[g].Pl, first[g].Ret
			} else {
				gen++
				it.Gen = gen
				held[it.ID] = gen
				first[gen] = *it
			}
		case "rel":
			delete(held, it.ID)
		}
	}
}

// c04RunSeq runs one inbound sequence against a fresh BaseClient and checks the
// observed timeline against the reference receiver automaton. It returns "" or
// a violation (signature, detail).
func c04RunSeq(seq []inItem, chunk int, withHandler, stepwise bool) (sig, detail string, stats map[string]int, trace []string) {
	stats = map[string]int{}
	tr := memnet.NewTrace()
	peer := &scen.Script{Tr: tr, AutoConnack: true, AutoPing: true}
	cli, conn := scen.NewBase(tr, peer)
	conn.Chunk = chunk
	if withHandler {
		var h mqtt.Handler
		nh := 0
		h = mqtt.HandlerFunc(func(m *mqtt.Message) {
			tr.Add(memnet.Event{Kind: memnet.KHEnter, Conn: conn.ID, S: m.Topic, S2: fmt.Sprintf("q%d id=%d ret=%v len=%d", m.QoS, m.ID, m.Retain, len(m.Payload)), N: len(m.Payload), Raw: append([]byte{}, m.Payload...)})
			runtime.Gosched()
			nh++
			if nh%2 == 0 {
				// like an application's handler, ours calls back into the client now and then (here: registers
				// itself again and looks at the connection's state)
				cli.Handle(h)
				_ = cli.Err()
			}
			tr.Add(memnet.Event{Kind: memnet.KHExit, Conn: conn.ID, S: m.Topic})
		})
		cli.Handle(h)
	}
	if err := scen.ConnectBase(cli); err != nil {
		return "harness", "connect failed: " + err.Error(), stats, tr.Dump(0)
	}
	start := tr.Len()
	fail := func(s, f string, a ...interface{}) (string, string, map[string]int, []string) {
		cli.Close()
		return s, fmt.Sprintf(f, a...) + "\nsequence: " + fmt.Sprint(seq), stats, tr.Dump(60)
	}
	if stepwise {
		for _, it := range seq {
			conn.Send(it.encode(), it.String())
			if err := scen.Barrier(cli); err != nil {
				return fail("link-ended-on-wellformed-input", "after %v the connection ended: %v (Err=%v)", it, err, cli.Err())
			}
		}
	} else {
		tr.Mu.Lock()
		for _, it := range seq {
			conn.SendLocked(it.encode(), it.String())
		}
		tr.Mu.Unlock()
	}
	if err := scen.Barrier(cli); err != nil {
		if scen.IsDeadline(err) && !scen.CertifyStuck(tr, conn) {
			cli.Close()
			return "harness", "barrier watchdog fired while still making progress", stats, tr.Dump(40)
		}
		return fail("link-ended-on-wellformed-input", "well-formed inbound sequence ended the connection: %v (Err=%v)", err, cli.Err())
	}
	// actual timeline: handler enter/exit and ack writes after start
	type act = c04Act
	var acts []act
	for _, e := range tr.Snapshot()[start:] {
		switch e.Kind {
		case memnet.KHEnter:
			acts = append(acts, act{"enter", 0, e.S, e})
		case memnet.KHExit:
			acts = append(acts, act{"exit", 0, e.S, e})
		case memnet.KWrite:
			if e.Pkt == nil {
				return fail("unparseable-write", "client wrote bytes that do not decode: %v", e)
			}
			switch e.Pkt.Type {
			case mqttref.PUBACK, mqttref.PUBREC, mqttref.PUBCOMP:
				if e.Mal != "" {
					return fail("malformed-ack", "client wrote a malformed acknowledgement: %v", e)
				}
				acts = append(acts, act{mqttref.TypeName(e.Pkt.Type), e.Pkt.ID, "", e})
			case mqttref.PINGREQ:
			default:
				return fail("unexpected-packet", "client wrote %v in answer to inbound traffic", e.Pkt)
			}
		}
	}
	// reference automaton
	held := map[uint16]inItem{}
	pos := 0
	next := func() *act {
		if pos < len(acts) {
			a := &acts[pos]
			pos++
			return a
		}
		return nil
	}
	expectHandover := func(step int, it, msg inItem) (string, string) {
		if !withHandler {
			return "", ""
		}
		a := next()
		if a == nil || a.kind != "enter" || a.topic != msg.topic() {
			return "handover-missing-or-misplaced", fmt.Sprintf("step %d %v: expected hand-over of message %v, observed %v", step, it, msg, descAct(a))
		}
		want := fmt.Sprintf("q%s id=%d ret=%v len=%d", msg.Kind[1:], msg.ID, msg.Ret, msg.Pl)
		if a.e.S2 != want || string(a.e.Raw) != string(msg.payload()) {
			return "handover-content", fmt.Sprintf("step %d %v: handler received %s payload %x, sent %s payload %x", step, it, a.e.S2, a.e.Raw, want, msg.payload())
		}
		b := next()
		if b == nil || b.kind != "exit" || b.topic != msg.topic() {
			return "handover-missing-or-misplaced", fmt.Sprintf("step %d %v: handler exit expected, observed %v", step, it, descAct(b))
		}
		stats["handovers"]++
		return "", ""
	}
	expectAck := func(step int, it inItem, kind string, id uint16) (string, string) {
		a := next()
		if a == nil || a.kind != kind || a.id != id {
			return "ack-missing-or-wrong", fmt.Sprintf("step %d %v: expected %s(%d), observed %v", step, it, kind, id, descAct(a))
		}
		stats[kind]++
		return "", ""
	}
	for i, it := range seq {
		var s, d string
		switch it.Kind {
		case "q0":
			s, d = expectHandover(i, it, it)
		case "q1":
			if s, d = expectHandover(i, it, it); s == "" {
				s, d = expectAck(i, it, "PUBACK", it.ID) // after the handler returned
			}
		case "q2":
			s, d = expectAck(i, it, "PUBREC", it.ID)
			if _, ok := held[it.ID]; !ok {
				held[it.ID] = it
			} else {
				stats["q2_retransmission_while_held"]++
			}
		case "rel":
			if msg, ok := held[it.ID]; ok {
				delete(held, it.ID)
				// hand-over and PUBCOMP, in either order (the statement does not order them)
				if pos < len(acts) && acts[pos].kind == "PUBCOMP" {
					if s, d = expectAck(i, it, "PUBCOMP", it.ID); s == "" {
						s, d = expectHandover(i, it, msg)
					}
				} else {
					if s, d = expectHandover(i, it, msg); s == "" {
						s, d = expectAck(i, it, "PUBCOMP", it.ID)
					}
				}
				stats["q2_released"]++
			} else {
				stats["rel_unknown_or_repeated"]++
				// no hand-over; a PUBCOMP is accepted but not required
				if pos < len(acts) && acts[pos].kind == "PUBCOMP" && acts[pos].id == it.ID {
					pos++
				}
			}
		}
		if s != "" {
			return fail(s, "%s", d)
		}
	}
	if pos != len(acts) {
		return fail("extra-handover-or-ack", "after the whole sequence was accounted for the client additionally produced %v", descAct(&acts[pos]))
	}
	cli.Close()
	return "", "", stats, nil
}

type c04Act struct {
	kind  string // enter exit PUBACK PUBREC PUBCOMP
	id    uint16
	topic string
	e     memnet.Event
}

func descAct(a *c04Act) string {
	if a == nil {
		return "nothing"
	}
	if a.kind == "enter" || a.kind == "exit" {
		return fmt.Sprintf("handler %s for %s (%s)", a.kind, a.topic, a.e.S2)
	}
	return fmt.Sprintf("%s(%d)", a.kind, a.id)
}

func c04Run(c fw.Case, env *fw.Env) fw.Result {
	var p c04Params
	fw.Params(c, &p)
	r := fw.Result{Counters: map[string]int{}}
	runOne := func(seq []inItem, chunk int, h, step bool) bool {
		sig, det, st, trc := c04RunSeq(seq, chunk, h, step)
		for k, v := range st {
			r.Counters[k] += v
		}
		r.Counters["sequences"]++
		if sig != "" {
			r.Verdict = fw.Violated
			if sig == "harness" {
				r.Verdict = fw.Inconclusive
			}
			r.Sig = sig
			r.Detail = fmt.Sprintf("%s\nchunk=%d handler=%v stepwise=%v", det, chunk, h, step)
			r.Trace = trc
			r.Sample = map[string]interface{}{"seq": fmt.Sprint(seq)}
			return false
		}
		return true
	}
	switch {
	case p.Mode == "retry":
		// the same hand-over rule through the retrying / reconnecting clients, whose handler travels from one
		// BaseClient to the next: messages pushed right behind every CONNACK, mid-connection and around cuts
		rng := env.Rng(c)
		wl := []string{"in1", "in2", "in4", "in5", "respond", "echo"}
		for i := 0; i < p.N; i++ {
			rp := retryParams{W: wl[(i+p.Part)%len(wl)], Cfg: scen.BrokerCfg{Method: "A", Session: []string{"keep", "lose"}[i%2]}, Chunk: []int{0, 1, 3}[i%3], Client: []string{"", "retry", "retry-retryfirst"}[(i/2)%3], Mode: "random", N: 1}
			for _, sc := range rp.scenarios(rng) {
				sc := sc
				run := scen.Exec(&sc)
				r.Evals++
				if run.Inconcl != "" {
					r.Counters["inconclusive_runs"]++
					continue
				}
				a := scen.Analyse(run)
				f, checked, _ := a.HandlerCheck()
				r.Counters["inbound_through_retrying_clients_checked"] += checked
				if len(f) > 0 {
					r.Verdict = fw.Violated
					r.Sig = "retrying-client:" + f[0].Sig
					r.Detail = fmt.Sprintf("%s\nworkload=%s client=%s faults=%v", f[0].Detail, rp.W, sc.Client, sc.Faults)
					r.Trace = a.Tail(100)
					return r
				}
				if checked > 0 {
					r.NT = append(r.NT, fw.Hash("retry", rp.W, sc.Client, a.FaultShape(), i))
				}
			}
		}
		r.Sample = map[string]interface{}{"mode": "retry", "workloads": wl}
	case p.Seq != nil:
		runOne(p.Seq, p.Chunk, p.Handler, p.Step)
	case p.Mode == "exh":
		idx := make([]int, p.Len)
		n := 0
		for {
			if n%p.Of == p.Part {
				seq := make([]inItem, p.Len)
				for i, a := range idx {
					seq[i] = c04Alpha[a]
					seq[i].Pl = (i*3 + a) % 5 // includes empty payloads
				}
				assignGens(seq)
				chunk := []int{0, 1, 2, 7}[n%4]
				withH := n%5 != 4
				if !runOne(seq, chunk, withH, n%3 == 0) {
					return r
				}
				r.NTCount++
				if r.Sample == nil {
					r.Sample = map[string]interface{}{"mode": "exhaustive", "len": p.Len, "example": fmt.Sprint(seq)}
				}
			}
			n++
			// increment
			k := p.Len - 1
			for k >= 0 {
				idx[k]++
				if idx[k] < len(c04Alpha) {
					break
				}
				idx[k] = 0
				k--
			}
			if k < 0 {
				break
			}
		}
	case p.Mode == "rand":
		rng := env.Rng(c)
		for i := 0; i < p.N; i++ {
			seq := randInSeq(rng)
			chunk := []int{0, 1, 2, 3, 7, 64}[rng.Intn(6)]
			if !runOne(seq, chunk, rng.Intn(6) != 0, rng.Intn(3) == 0) {
				return r
			}
			r.NT = append(r.NT, "r:"+fmt.Sprint(seq))
			if i == 0 {
				r.Sample = map[string]interface{}{"mode": "random", "example": fmt.Sprint(seq), "chunk": chunk}
			}
		}
	}
	return r
}

func randInSeq(rng *rand.Rand) []inItem {
	n := 1 + rng.Intn(12)
	ids := []uint16{1, 2, 0xFFFF}
	if rng.Intn(4) == 0 {
		ids = []uint16{uint16(1 + rng.Intn(65535)), uint16(1 + rng.Intn(65535)), 7}
	}
	seq := make([]inItem, n)
	for i := range seq {
		it := inItem{ID: ids[rng.Intn(3)], Dup: rng.Intn(3) == 0, Ret: rng.Intn(4) == 0}
		switch rng.Intn(8) {
		case 0:
			it.Kind = "q0"
			it.ID, it.Dup = 0, false
		case 1, 2:
			it.Kind = "q1"
		case 3, 4, 5:
			it.Kind = "q2"
		default:
			it.Kind = "rel"
			it.Dup, it.Ret = false, false
		}
		switch rng.Intn(5) {
		case 0:
			it.Pl = 0
		case 1:
			it.Pl = 120 + rng.Intn(20) // around the 127/128 length boundary
		default:
			it.Pl = 1 + rng.Intn(12)
		}
		seq[i] = it
	}
	assignGens(seq)
	return seq
}

func init() {
	fw.Register(&fw.Prop{
		ID:    "C04",
		Level: "exploration",
		Rule: "every sequence over a 9-symbol alphabet {q0, q1(id1), q1(id2,dup), q2(id1), q2(id2), q2(id1,dup), PUBREL(1), PUBREL(2), PUBREL(3 never published)} up to length L (quick 4, thorough 6: exhaustive) plus seeded random sequences of length 1-12 " +
			"(random/boundary ids, dup/retain flags, empty and 127/128-byte payloads) is sent to a real BaseClient over the in-memory transport with read chunking 1/2/7/whole, with and without a handler, all at once or packet by packet; " +
			"a Ping barrier proves serve() processed everything; the single timeline of handler enter/exit and PUBACK/PUBREC/PUBCOMP writes must equal the reference receiver automaton. Non-trivial: each distinct sequence run.",
		Assumptions: []string{"a retransmitted QoS 2 PUBLISH of a held id carries the same message (conforming broker)", "a PUBCOMP for an unknown/repeated PUBREL is accepted but not demanded (the statement does not demand it)",
			"relative order of QoS 2 hand-over and PUBCOMP is not constrained (the statement does not order them)"},
		Gen: c04Gen,
		Run: c04Run,
	})
}
