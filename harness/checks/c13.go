package checks

import (
	"context"
	"errors"
	"fmt"
	"math/rand"
	"strings"
	"sync"
	"time"

	mqtt "github.com/at-wat/mqtt-go"
	"verif/fw"
	"verif/memnet"
	"verif/mqttref"
	"verif/scen"
)

type c13Params struct {
	Mode string `json:"mode"` // unit | system | default (library default ping timeout)
	N    int    `json:"n"`
}

func c13Gen(tier string, seed int64) []fw.Case {
	var cs []fw.Case
	for i := 0; i < 16; i++ {
		cs = append(cs, fw.Mk(fmt.Sprintf("unit-%d", i), c13Params{Mode: "unit", N: scale(tier, 12, 2500)}))
	}
	for i := 0; i < 16; i++ {
		cs = append(cs, fw.Mk(fmt.Sprintf("system-%d", i), c13Params{Mode: "system", N: scale(tier, 3, 400)}))
	}
	for i := 0; i < 4; i++ {
		cs = append(cs, fw.Mk(fmt.Sprintf("system-default-timeout-%d", i), c13Params{Mode: "default", N: scale(tier, 2, 12)}))
	}
	return cs
}

// scriptedClient is a mqtt.Client whose Ping follows a script; it behaves like the real Ping
// with respect to its context (returns the context's error once the context ends).
type scriptedClient struct {
	mu        sync.Mutex
	script    []string // P E T Cd
	calls     int
	times     []time.Time
	cancelP   context.CancelFunc
	boom      error
	timeout   time.Duration // configured ping timeout (for the deadline rule)
	slow      time.Duration // duration of an "S" ping
	short     string        // first ping whose deadline was much nearer than the configured timeout
	exhausted chan struct{}
	once      sync.Once
}

func (s *scriptedClient) Connect(context.Context, string, ...mqtt.ConnectOption) (bool, error) {
	return false, nil
}
func (s *scriptedClient) Disconnect(context.Context) error             { return nil }
func (s *scriptedClient) Publish(context.Context, *mqtt.Message) error { return nil }
func (s *scriptedClient) Unsubscribe(context.Context, ...string) error { return nil }
func (s *scriptedClient) Handle(mqtt.Handler)                          {}
func (s *scriptedClient) Subscribe(context.Context, ...mqtt.Subscription) ([]mqtt.Subscription, error) {
	return nil, nil
}

func (s *scriptedClient) Ping(ctx context.Context) error {
	s.mu.Lock()
	i := s.calls
	s.calls++
	s.times = append(s.times, time.Now())
	step := "END"
	if i < len(s.script) {
		step = s.script[i]
	}
	if dl, ok := ctx.Deadline(); ok && s.timeout > 0 && s.timeout < time.Hour && s.short == "" {
		// "as long as each response arrives within the timeout": every ping is entitled to the whole timeout
		if left := time.Until(dl); left < s.timeout/2 {
			s.short = fmt.Sprintf("ping #%d was given %v to complete, the configured timeout is %v", i+1, left.Round(time.Millisecond), s.timeout)
		}
	}
	s.mu.Unlock()
	if ctx.Err() != nil {
		return fmt.Errorf("waiting PINGRESP: %w", ctx.Err())
	}
	switch step {
	case "S":
		// answered late, but well within the timeout
		t := time.NewTimer(s.slow)
		defer t.Stop()
		select {
		case <-t.C:
			return nil
		case <-ctx.Done():
			return fmt.Errorf("waiting PINGRESP: %w", ctx.Err())
		}
	case "P":
		t := time.NewTimer(time.Duration(i%3) * 300 * time.Microsecond)
		defer t.Stop()
		select {
		case <-t.C:
			return nil
		case <-ctx.Done():
			return fmt.Errorf("waiting PINGRESP: %w", ctx.Err())
		}
	case "E":
		return s.boom
	case "T":
		<-ctx.Done()
		return fmt.Errorf("waiting PINGRESP: %w", ctx.Err())
	case "Cd":
		s.cancelP() // the parent is cancelled while this ping is in flight
		<-ctx.Done()
		return fmt.Errorf("waiting PINGRESP: %w", ctx.Err())
	case "Cb":
		// this ping is answered; the parent is cancelled right after it, before the next tick
		s.cancelP()
		return nil
	default: // END: all scripted pings were answered; the harness cancels the parent now
		s.once.Do(func() { close(s.exhausted) })
		<-ctx.Done()
		return fmt.Errorf("waiting PINGRESP: %w", ctx.Err())
	}
}

func c13Unit(rng *rand.Rand) (sig, detail, shape string) {
	np := rng.Intn(5)
	var script []string
	for i := 0; i < np; i++ {
		script = append(script, "P")
	}
	final := []string{"E", "T", "Cd", "Cb", "END"}[rng.Intn(5)]
	slowScript := rng.Intn(8) == 0
	if slowScript {
		// responses that take most of the timeout (several intervals): the next pings are still entitled to the
		// whole timeout
		final = "END"
		script = []string{"P", "S", "S", "P"}[:2+rng.Intn(3)]
	}
	if final != "END" {
		script = append(script, final)
	}
	interval := time.Duration(1+rng.Intn(3)) * time.Millisecond
	timeout := time.Hour // cannot have expired: classification stays logical
	if final == "T" {
		timeout = time.Duration(20+rng.Intn(20)) * time.Millisecond
	}
	if slowScript {
		timeout = 400 * time.Millisecond
	}
	parent, cancel := context.WithCancel(context.Background())
	defer cancel()
	sc := &scriptedClient{script: script, cancelP: cancel, boom: errors.New("scripted ping failure"), exhausted: make(chan struct{}), timeout: timeout, slow: timeout * 8 / 10}
	res := make(chan error, 1)
	t0 := time.Now()
	go func() { res <- mqtt.KeepAlive(parent, sc, interval, timeout) }()
	if final == "END" {
		select {
		case <-sc.exhausted:
			cancel()
		case err := <-res:
			if slowScript {
				sc.mu.Lock()
				short := sc.short
				sc.mu.Unlock()
				if short == "" {
					return "inconclusive", "a slow-but-timely ping expired without a shortened deadline (machine load)", ""
				}
				return "ping-deadline-shorter-than-timeout", fmt.Sprintf("script %v interval %v: %s; KeepAlive returned %v although every response arrived within the timeout", script, interval, short, err), ""
			}
			return "keepalive-stopped-while-healthy", fmt.Sprintf("script %v interval %v: KeepAlive returned %v although every ping was answered within the timeout", script, interval, err), ""
		case <-time.After(scen.Watchdog):
			return "inconclusive", "script not exhausted", ""
		}
	}
	var err error
	select {
	case err = <-res:
	case <-time.After(scen.Watchdog):
		return "keepalive-does-not-return", fmt.Sprintf("script %v: KeepAlive did not return", script), ""
	}
	shape = strings.Join(script, "") + "/" + final
	sc.mu.Lock()
	short := sc.short
	sc.mu.Unlock()
	if short != "" {
		return "ping-deadline-shorter-than-timeout", fmt.Sprintf("script %v interval %v: %s", script, interval, short), ""
	}
	bad := func(f string, a ...interface{}) (string, string, string) {
		return "keepalive-classification:" + final, fmt.Sprintf("script %v interval %v timeout %v: ", script, interval, timeout) + fmt.Sprintf(f, a...), ""
	}
	switch final {
	case "E":
		if !errors.Is(err, sc.boom) || errors.Is(err, mqtt.ErrPingTimeout) {
			return bad("ping failed immediately with %q (timeout far away, parent alive) but KeepAlive returned %v", sc.boom, err)
		}
	case "T":
		if !errors.Is(err, mqtt.ErrPingTimeout) {
			return bad("ping never answered but KeepAlive returned %v, want ErrPingTimeout", err)
		}
	case "Cd", "Cb", "END":
		if !errors.Is(err, context.Canceled) || errors.Is(err, mqtt.ErrPingTimeout) {
			return bad("parent context cancelled (%s) but KeepAlive returned %v, want the context's error and not a timeout", final, err)
		}
	}
	// lower bound: the k-th ping is not sent before t_call + k*interval
	sc.mu.Lock()
	defer sc.mu.Unlock()
	for k, t := range sc.times {
		if t.Sub(t0) < time.Duration(k+1)*interval {
			return "ping-too-early", fmt.Sprintf("script %v: ping #%d sent %v after KeepAlive was called, interval %v", script, k+1, t.Sub(t0), interval), ""
		}
	}
	if final != "T" && len(sc.times) < len(script) {
		// (T scripts use a small real timeout; on a loaded machine an earlier, answered ping may exceed it,
		// which legitimately ends KeepAlive with ErrPingTimeout before the script is exhausted)
		return "ping-missing", fmt.Sprintf("script %v: only %d pings sent", script, len(sc.times)), ""
	}
	return "", "", shape
}

func c13System(rng *rand.Rand, forceDefault bool) (sig, detail string, trace []string, shape string) {
	ping := []int{2, 3, 5}[rng.Intn(3)]
	to := []int{6, 9, 14}[rng.Intn(3)]
	sc := scen.Scenario{Client: "reconnect", Cfg: scen.BrokerCfg{Method: "A", Session: "keep"}, WaitBaseMs: 1, WaitMaxMs: 2, TimeoutMs: to, PingMs: ping, SlowReturn: []int{0, 2, 4}[rng.Intn(3)]}
	n := 1 + rng.Intn(3)
	silentAt := -1
	if rng.Intn(3) != 0 {
		silentAt = rng.Intn(n + 1)
	}
	if rng.Intn(8) == 0 || forceDefault {
		// only the ping interval is configured: the library's default timeout (= interval) applies
		ping, to = 150, 150
		sc.PingMs, sc.TimeoutMs = ping, -1
		n = 1
		if silentAt >= 0 {
			silentAt = 1
		}
	}
	slowAlive := !forceDefault && ping != 150 && rng.Intn(6) == 0
	if slowAlive {
		// a broker that answers every PINGREQ late but well within the keep-alive timeout, while the much shorter
		// RetryClient.ResponseTimeout (which is about requests, not about keep-alive) is configured as well
		ping, to = 50, 400
		sc.PingMs, sc.TimeoutMs, sc.RespMs, sc.PingDelayMs = ping, to, 20, 100
		n, silentAt = 1, -1
	}
	// (healthy runs keep the small timeout - a generous one would hide a lost PINGRESP until long after the
	// run; a load-induced expiry is filtered by confirming the verdict on repeated executions, see c13Run)
	tag := 0
	for i := 0; i <= n; i++ {
		if i == silentAt {
			if rng.Intn(2) == 0 {
				// surplus PINGRESPs before the silence, sent in the middle of a keep-alive interval (the steps run
				// in step with the ticks): they answer nothing that is asked later
				sc.Steps = append(sc.Steps, scen.Step{Op: "sleep", Ms: (ping + 1) / 2})
				for k := 1 + rng.Intn(2); k > 0; k-- {
					sc.Steps = append(sc.Steps, scen.Step{Op: "extrapingresp"})
				}
			}
			sc.Steps = append(sc.Steps, scen.Step{Op: "silentping"}, scen.Step{Op: "sleep", Ms: 2*to + 2*ping}, scen.Step{Op: "pingok"})
		}
		if i < n {
			tag++
			sc.Steps = append(sc.Steps, scen.Step{Op: "pub", QoS: byte(1 + rng.Intn(2)), Tag: fmt.Sprintf("m%d", tag), Wait: rng.Intn(2) == 0}, scen.Step{Op: "sleep", Ms: ping * (1 + rng.Intn(3))})
			if slowAlive {
				sc.Steps = append(sc.Steps, scen.Step{Op: "sleep", Ms: 4 * ping}) // three or four late answers
			}
		}
	}
	sc.KeepOpen = true
	run := scen.Exec(&sc)
	defer run.Finish()
	tr := run.Tr
	fail := func(s, f string, a ...interface{}) (string, string, []string, string) {
		return s, fmt.Sprintf(f, a...) + fmt.Sprintf("\nsteps=%v ping=%dms timeout=%dms", sc.Steps, ping, to), tr.Dump(150), ""
	}
	// A PINGREQ dropped late in the silent period times out only after the workload has finished: wait
	// (logically: until the library closes that connection) before judging.
	{
		silentNow := false
		droppedConn := 0
		for _, e := range tr.Snapshot() {
			if e.Kind == memnet.KNote && strings.HasPrefix(e.S, "broker stops answering") {
				silentNow = true
			}
			if e.Kind == memnet.KNote && strings.HasPrefix(e.S, "broker answers PINGREQ again") {
				silentNow = false
			}
			if silentNow && e.Kind == memnet.KWrite && e.OK && e.S == "" && e.Pkt != nil && e.Pkt.Type == mqttref.PINGREQ && droppedConn == 0 {
				droppedConn = e.Conn
			}
		}
		if droppedConn > 0 {
			closed := tr.WaitFor(scen.Watchdog, func() bool { return tr.Conns[droppedConn-1].LocalClosed })
			if !closed {
				if scen.CertifyStuck(tr, tr.Conns[droppedConn-1]) {
					return fail("silent-peer-not-detected", "PINGREQ on connection %d was never answered; %v later (timeout %dms) the library still has not closed that connection and nothing moves", droppedConn, scen.Watchdog, to)
				}
				return "inconclusive", "dropped ping not yet timed out", nil, ""
			}
			// the Closed callback follows the close
			tr.WaitFor(scen.Watchdog, func() bool {
				for _, e := range tr.Events {
					if e.Kind == memnet.KState && e.Conn == droppedConn && e.S == "Closed" {
						return true
					}
				}
				return false
			})
			// and a new connection is established
			tr.WaitFor(scen.Watchdog, func() bool {
				for _, e := range tr.Events {
					if e.Kind == memnet.KDialEnd && e.OK && e.Conn > droppedConn {
						return true
					}
				}
				return false
			})
			tr.Mu.Lock()
			run.EndSeq = len(tr.Events)
			tr.Mu.Unlock()
		}
	}
	if run.Stuck {
		return fail("stalled-after-silence", "the run is certified stuck: no reconnect / retransmission after the broker went silent\n%s", run.GoDump)
	}
	if run.Inconcl != "" {
		return "inconclusive", run.Inconcl, nil, ""
	}
	ev := tr.Snapshot()
	if run.EndSeq > 0 && run.EndSeq < len(ev) {
		ev = ev[:run.EndSeq]
	}
	interval := time.Duration(ping) * time.Millisecond
	active := map[int]time.Duration{}
	pings := map[int]int{}
	silent := false
	var dropped []memnet.Event // PINGREQs sent while the broker was silent
	closedCB := map[int]string{}
	libClose := map[int]bool{}
	npings := 0
	for _, e := range ev {
		switch e.Kind {
		case memnet.KNote:
			if strings.HasPrefix(e.S, "broker stops answering") {
				silent = true
			}
			if strings.HasPrefix(e.S, "broker answers PINGREQ again") {
				silent = false
			}
		case memnet.KState:
			if e.S == "Active" {
				active[e.Conn] = e.T
			}
			if e.S == "Closed" {
				closedCB[e.Conn] = e.Err
			}
		case memnet.KClose:
			libClose[e.Conn] = true
		case memnet.KWrite:
			if e.Pkt != nil && e.Pkt.Type == mqttref.PINGREQ {
				npings++
				pings[e.Conn]++
				if a, ok := active[e.Conn]; ok {
					if e.T-a < time.Duration(pings[e.Conn])*interval {
						return fail("ping-too-early", "connection %d: PINGREQ #%d written %.3fms after Active, interval %dms", e.Conn, pings[e.Conn], float64(e.T-a)/1e6, ping)
					}
				}
				if silent && e.OK && e.S == "" {
					dropped = append(dropped, e)
				}
			}
		}
	}
	// "sends a ping every interval while the connection is healthy": a connection that stayed up for many intervals
	// (four, and at least 300 ms, so that a starved ticker on a loaded machine cannot be blamed) shows at least one
	var lastT time.Duration
	if len(ev) > 0 {
		lastT = ev[len(ev)-1].T
	}
	endOf := map[int]time.Duration{}
	for _, e := range ev {
		if (e.Kind == memnet.KClose || e.Kind == memnet.KPeerClose) && endOf[e.Conn] == 0 {
			endOf[e.Conn] = e.T
		}
	}
	for cn, a := range active {
		end := lastT
		if t, ok := endOf[cn]; ok {
			end = t
		}
		need := 4 * interval
		if need < 300*time.Millisecond {
			need = 300 * time.Millisecond
		}
		if end-a >= need && pings[cn] == 0 {
			return fail("no-ping-sent", "connection %d was up for %v with a ping interval of %dms configured, and not a single PINGREQ was written on it", cn, (end - a).Round(time.Millisecond), ping)
		}
	}
	if silentAt < 0 {
		// healthy run: only a silent peer may be declared dead
		if len(libClose) > 0 || len(run.Tr.Conns) != 1 {
			return fail("healthy-connection-closed", "no fault was injected and every PINGREQ was answered, but the library closed a connection (connections: %d, Closed callbacks: %v)", len(run.Tr.Conns), closedCB)
		}
		if npings == 0 {
			return "", "", nil, "healthy-noping"
		}
		return "", "", nil, fmt.Sprintf("healthy/pings=%d", min(npings, 6))
	}
	if len(dropped) == 0 {
		return "", "", nil, "silent-no-ping-dropped"
	}
	// keep-alive pings are sequential: while one is unanswered no further PINGREQ is sent on that connection.
	// (A surplus PINGRESP that reaches the client while a Ping is being set up or is pending counts as its answer -
	// PINGRESP carries no identifier - so the rule only applies when every surplus PINGRESP was consumed well
	// before the unanswered PINGREQ was written.)
	ambiguous := false
	for _, e := range ev {
		if e.Kind == memnet.KConsumed && e.Conn == dropped[0].Conn && e.S == "unsolicited PINGRESP" && e.T > dropped[0].T-interval/4 {
			ambiguous = true
		}
	}
	for _, d := range dropped[1:] {
		if d.Conn == dropped[0].Conn && !ambiguous && interval >= 100*time.Millisecond {
			return fail("unanswered-ping-taken-for-answered", "connection %d: PINGREQ #%d was never answered, yet the keep-alive went on to send another PINGREQ (#%d) instead of timing out", d.Conn, dropped[0].Seq, d.Seq)
		}
	}
	// the connection whose PINGREQ was dropped must be closed by the library with ErrPingTimeout, then a new connection
	c := dropped[0].Conn
	msg, ok := closedCB[c]
	if !ok || !libClose[c] {
		return fail("silent-peer-not-detected", "PINGREQ on connection %d was never answered but the library did not close that connection", c)
	}
	if !strings.Contains(msg, mqtt.ErrPingTimeout.Error()) {
		return fail("silent-peer-wrong-error", "connection %d: PINGREQ never answered, Closed callback carried %q, want ErrPingTimeout", c, msg)
	}
	redial := false
	for _, e := range ev {
		if e.Kind == memnet.KDialEnd && e.OK && e.Conn > c {
			redial = true
		}
	}
	if !redial {
		return fail("no-redial-after-ping-timeout", "connection %d was closed after a ping timeout but no new connection was established", c)
	}
	return "", "", nil, fmt.Sprintf("silent@%d/ping%d/to%d", silentAt, ping, to)
}

func min(a, b int) int {
	if a < b {
		return a
	}
	return b
}

func c13Run(c fw.Case, env *fw.Env) fw.Result {
	var p c13Params
	fw.Params(c, &p)
	rng := env.Rng(c)
	r := fw.Result{Counters: map[string]int{}}
	for i := 0; i < p.N; i++ {
		var sig, det, shape string
		var trc []string
		if p.Mode == "unit" {
			useed := rng.Int63()
			sig, det, shape = c13Unit(rand.New(rand.NewSource(useed)))
			if sig == "ping-deadline-shorter-than-timeout" {
				// a stall of the machine between creating the deadline and calling Ping could shorten what is left:
				// the verdict stands only if the same script shows it three times out of three
				for k := 0; k < 2; k++ {
					if s2, _, _ := c13Unit(rand.New(rand.NewSource(useed))); s2 != sig {
						r.Counters["short_deadline_not_confirmed"]++
						sig, det = "", ""
						shape = "unconfirmed/"
						break
					}
				}
			}
		} else {
			seed := rng.Int63()
			sig, det, trc, shape = c13System(rand.New(rand.NewSource(seed)), p.Mode == "default")
			if sig == "unanswered-ping-taken-for-answered" {
				// (a goroutine stalled between registering for the PINGRESP and writing the PINGREQ could still let a
				// surplus PINGRESP in: three out of three, or it does not count)
				for k := 0; k < 2; k++ {
					if s2, _, _, _ := c13System(rand.New(rand.NewSource(seed)), p.Mode == "default"); s2 != sig {
						r.Counters["surplus_pingresp_verdicts_not_confirmed"]++
						sig, det, trc = "", "", nil
						shape = "surplus-unconfirmed"
						break
					}
				}
			}
			if sig == "healthy-connection-closed" {
				// A small ping timeout can expire on a loaded machine although the response was sent, which
				// legitimately closes the connection. The verdict stands only if the same scenario does it
				// three times out of three.
				confirmed := 1
				for k := 0; k < 2; k++ {
					s2, _, _, _ := c13System(rand.New(rand.NewSource(seed)), p.Mode == "default")
					if s2 == "healthy-connection-closed" {
						confirmed++
					}
				}
				if confirmed < 3 {
					r.Counters["load_induced_ping_timeouts_not_confirmed"]++
					sig, det, trc = "", "", nil
					shape = "healthy-unconfirmed"
				} else {
					det += "\n(confirmed on 3 of 3 executions of the same scenario)"
				}
			}
		}
		r.Evals++
		switch sig {
		case "":
			r.NT = append(r.NT, fw.Hash(p.Mode, shape, c.Idx, i))
			r.Counters[p.Mode+"_"+strings.SplitN(shape, "/", 2)[0]]++
			if r.Sample == nil {
				r.Sample = map[string]interface{}{"mode": p.Mode, "shape": shape}
			}
		case "inconclusive":
			r.Counters["inconclusive_runs"]++
			if r.Counters["inconclusive_runs"] > 3 {
				r.Verdict = fw.Inconclusive
				r.Detail = det
				return r
			}
		default:
			r.Verdict = fw.Violated
			r.Sig = sig
			r.Detail = det
			r.Trace = trc
			return r
		}
	}
	return r
}

func init() {
	fw.Register(&fw.Prop{
		ID:    "C13",
		Level: "fault_enumeration",
		Rule: "unit: KeepAlive is run against a scripted Client whose Ping outcomes follow seeded scripts P*(E|T|Cd|Cb|end): answered promptly, failing immediately (timeout set to 1 h so it cannot have expired), never answered (parent never cancelled), parent cancelled during / between pings, all answered then cancelled; " +
			"expected classification: E => that error and not ErrPingTimeout, T => ErrPingTimeout, cancel => the context's error and not ErrPingTimeout, healthy => keeps running; ping k not before t_call + k*interval. " +
			"system: real ReconnectClient with keep-alive 2/3/5 ms and timeout 6/9/14 ms; the broker model goes silent for PINGREQ at a chosen point of a small workload (or never): a dropped PINGREQ must lead to library Close of that connection, Closed callback with ErrPingTimeout, a new connection and completion of the workload (sentinel); " +
			"without injected faults the library must never close the connection. Non-trivial: every script / system run.",
		Assumptions: []string{"the scripted Ping honours its context like BaseClient.Ping", "lower bounds on ping times only (tickers never fire early)"},
		Gen:         c13Gen,
		Run:         c13Run,
		Budget:      retryBudget,
	})
}
