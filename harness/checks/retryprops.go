package checks

import (
	"verif/fw"
	"verif/scen"
)

var allMethods = []string{"A", "B"}

func init() {
	// ---------------- C01
	fw.Register(&fw.Prop{
		ID: "C01", Level: "fault_enumeration",
		Rule: "real ReconnectClient, and RetryClient driven through the Retryer contract by a hand-written loop (Resubscribe/Retry in both orders, and a chaotic variant with repeated calls and abandoned clients), on the in-memory transport against a conforming broker model; canonical workloads (requests before Connect, after Connect, without waiting, waiting, during an outage, caller-set ids) x configurations (QoS2 method A/B, session kept/lost, AlwaysResubscribe, read chunking, late-write style) x " +
			"every single cut of 4 kinds (before/after processing, write error or not, response delivered or not) at every request-packet ordinal, exhaustive cut pairs for short workloads, seeded random plans of up to 6 faults incl. refused/absent CONNACK and dial failures, " +
			"and steered submissions while the reconnect goroutine is parked inside the Dialer / inside a ConnectOption (between SetClient and BaseClient.Connect), and submissions made from inside the ConnState(Active) and OnError callbacks. Each run ends with stabilise -> sentinel publish -> quiescence (sentinel acknowledged, queues empty) or a certified-stuck certificate. " +
			"Oracle: obligation ledger - every accepted QoS>=1 publish / subscribe / unsubscribe has an acknowledgement that was sent and consumed on some connection. Non-trivial: distinct (workload, config, fired-fault shape, steering) in which at least one fault fired or a steered submission happened.",
		Assumptions: []string{"fault model of DESIGN.md 2.4 (no write error after the peer processed the bytes, no partial writes)", "identical subscribe/unsubscribe requests are matched by count", "runs in which two in-flight messages got the same packet id (ids are re-randomised per connection) are skipped as ambiguous"},
		Gen: func(tier string, seed int64) []fw.Case {
			return genRetry(retrySpec{
				Workloads:   []string{"q1x3", "q2x2", "mixed", "pre", "waits", "outage", "outage2", "preset", "subs1", "idlecut", "echo", "ka", "respond", "sw1"},
				Configs:     withClients(cfgs(pick(tier, []string{"A"}, allMethods), []string{"keep", "lose"}, []bool{false}), 2, "retry", "retry-retryfirst", "retry-chaotic"),
				Singles:     true,
				Pairs:       pick(tier, nil, []string{"q1x3", "q2x2", "pre"}),
				PairsSample: scale(tier, 40, 2000),
				Random:      scale(tier, 100, 8000),
				Fuzz:        scale(tier, 80, 20000),
				Steer:       true,
				Drops:       true,
			}, tier)
		},
		Run: runRetryCase("C01", func(a *scen.Analysis) ([]scen.Finding, bool, map[string]int) {
			f := a.Ledger()
			cnt := map[string]int{"obligations": 0}
			for k, n := range a.KeyCount {
				if k != "P:"+scen.Sentinel && k != "P:"+scen.Sentinel2 {
					cnt["obligations"] += n
				}
			}
			cnt["retransmissions"] = a.Retransmissions()
			return f, a.FaultShape() != "" || a.R.Sc.SteerAt != "", cnt
		}),
		Budget: retryBudget,
	})
	// ---------------- C02
	fw.Register(&fw.Prop{
		ID: "C02", Level: "fault_enumeration",
		Rule: "QoS 2 workloads (1-3 messages, alone and mixed) through the real reconnecting client against a session-keeping broker model with receiver method A (deliver on PUBLISH) and B (deliver on PUBREL); all single cuts and ALL pairs of cuts (4 kinds each) over CONNECT/PUBLISH/PUBREL ordinals, seeded random plans up to 6 faults. " +
			"Oracle: broker delivery log has exactly one onward delivery per accepted QoS 2 message at quiescence; nothing is written for a message after its PUBCOMP was consumed and the client moved on. Non-trivial: distinct (workload, config, fired faults) with >=1 fault fired.",
		Assumptions: []string{"exactly-once is only asserted when the broker kept the session", "a PUBCOMP that arrives together with the cut may legitimately be followed by one more PUBREL (select race in the library)"},
		Gen: func(tier string, seed int64) []fw.Case {
			return genRetry(retrySpec{
				Workloads:   []string{"q2x1", "q2x2", "q2x3", "q2mix", "q2sub", "mixed", "preset", "echo", "sw1", "preq2"},
				Configs:     withClients(cfgs(allMethods, []string{"keep"}, []bool{false, true}), 1, "retry"),
				Singles:     true,
				Pairs:       pick(tier, []string{"q2x1", "q2x2"}, []string{"q2x1", "q2x2", "q2x3", "q2mix"}),
				PairsSample: scale(tier, 60, 3000),
				Random:      scale(tier, 100, 10000),
				Fuzz:        scale(tier, 80, 20000),
				Drops:       true,
			}, tier)
		},
		Run: runRetryCase("C02", func(a *scen.Analysis) ([]scen.Finding, bool, map[string]int) {
			cnt := map[string]int{}
			for _, s := range a.Order {
				if s.Step.Op == "pub" && s.Step.QoS == 2 && s.Accepted {
					cnt["qos2_messages"]++
				}
			}
			return a.ExactlyOnce(), a.FaultShape() != "" && a.IDCollision == "", cnt
		}),
		Budget: retryBudget,
	})
	// ---------------- C03
	fw.Register(&fw.Prop{
		ID: "C03", Level: "fault_enumeration",
		Rule: "single-submitter workloads through the real reconnecting client; all single cuts, exhaustive cut pairs on short workloads, sampled pairs and seeded random plans elsewhere. Oracle on every connection of the run: (R1) PUBLISH attempts appear in non-decreasing submission order, " +
			"(R2) first transmissions of all requests are strictly increasing in submission order (untransmitted QoS 0 skipped), (R3) with closing faults only, the broker's first deliveries of QoS>=1 messages are in submission order. Non-trivial: >=1 fault fired and >=1 retransmission observed.",
		Assumptions: []string{"default queued mode (DirectlyPublishQoS0 off)", "R3 not asserted under dropped responses/timeouts", "requests with identical keys are excluded from R2"},
		Gen: func(tier string, seed int64) []fw.Case {
			return genRetry(retrySpec{
				Workloads:   []string{"q1x3", "q2x3", "q2mix", "mixed", "pre", "outage", "outage2", "preset"},
				Configs:     withClients(cfgs(pick(tier, []string{"A"}, allMethods), []string{"keep", "lose"}, []bool{false}), 1, "retry", "retry-retryfirst"),
				Singles:     true,
				Pairs:       pick(tier, []string{"q1x3"}, []string{"q1x3", "q2x3", "pre"}),
				PairsSample: scale(tier, 50, 2500),
				Random:      scale(tier, 100, 8000),
				Fuzz:        scale(tier, 80, 20000),
			}, tier)
		},
		Run: runRetryCase("C03", func(a *scen.Analysis) ([]scen.Finding, bool, map[string]int) {
			rt := a.Retransmissions()
			return a.OrderCheck(), a.FaultShape() != "" && rt > 0, map[string]int{"retransmissions": rt}
		}),
		Budget: retryBudget,
	})
	// ---------------- C08
	fw.Register(&fw.Prop{
		ID: "C08", Level: "fault_enumeration",
		Rule: "Subscribe/Unsubscribe histories (repeated filters, changed QoS, multi-filter calls, duplicates inside one call, absent filters, calls before Connect and during outages, interleaved publishes) through the real reconnecting client; session kept / lost, AlwaysResubscribe on/off; all single cuts, sampled pairs, random plans, idle cuts inside the workload. " +
			"Oracle: at quiescence the broker model's subscription table equals the fold of the application's calls; on connections where re-subscription is not allowed (first established connection; session present and option off) the SUBSCRIBE packets must be explainable as application requests. Non-trivial: a reconnect happened (>=2 connections).",
		Assumptions: []string{"broker grants the requested QoS", "the fold uses accepted calls in call order"},
		Gen: func(tier string, seed int64) []fw.Case {
			return genRetry(retrySpec{
				Workloads:   []string{"subs1", "subs2", "subs3", "subs4", "subs5", "subs6", "subs7", "mixed", "outage2", "presub"},
				Configs:     withClients(cfgs([]string{"A"}, []string{"keep", "lose"}, []bool{false, true}), 4, "retry", "retry-retryfirst", "retry-chaotic"),
				Singles:     true,
				PairsSample: scale(tier, 40, 1500),
				Random:      scale(tier, 100, 4000),
				Fuzz:        scale(tier, 80, 20000),
				RandHist:    scale(tier, 120, 12000),
				Drops:       true,
			}, tier)
		},
		Run: runRetryCase("C08", func(a *scen.Analysis) ([]scen.Finding, bool, map[string]int) {
			f, resubs := a.Subscriptions()
			return f, a.Connections() >= 2, map[string]int{"resubscribe_packets": resubs}
		}),
		Budget: retryBudget,
	})
	// ---------------- C12
	fw.Register(&fw.Prop{
		ID: "C12", Level: "fault_enumeration",
		Rule: "all PUBLISH/PUBREL write attempts (including writes that failed locally) of every message across all connections of runs with single cuts, exhaustive pairs on QoS 2 workloads, sampled pairs and random plans; messages with caller-set ids, preset Dup and retain. " +
			"Oracle per message: every retransmission equals the first transmission in id/topic/payload/QoS/retain, first has DUP=0 and later ones DUP=1, QoS 0 is written at most once, a QoS 1 message never gets a PUBREL, PUBREL follows a consumed PUBREC and carries the message's id, no PUBLISH after a PUBREL whose write succeeded. " +
			"The same oracle is applied to the ErrorWithRetry handle of an interrupted BaseClient request (C19 API cases). Non-trivial: >=1 retransmission observed.",
		Assumptions: []string{"DUP is defined on attempts: a PUBLISH whose local Write failed counts as first transmission", "after a failed PUBREL write the library falls back to PUBLISH(dup)", "messages identified by payload tag, never by id"},
		Gen: func(tier string, seed int64) []fw.Case {
			return genRetry(retrySpec{
				Workloads:   []string{"q1x3", "q2x2", "q2x3", "q2mix", "mixed", "preset", "outage", "echo", "sw1"},
				Configs:     withClients(cfgs(allMethods, []string{"keep", "lose"}, []bool{false})[:scale(tier, 2, 4)], 1, "retry"),
				Singles:     true,
				Pairs:       pick(tier, []string{"q2x2"}, []string{"q2x2", "q2x3", "preset"}),
				PairsSample: scale(tier, 50, 2500),
				Random:      scale(tier, 100, 8000),
				Fuzz:        scale(tier, 80, 20000),
				Drops:       true,
			}, tier)
		},
		Run: runRetryCase("C12", func(a *scen.Analysis) ([]scen.Finding, bool, map[string]int) {
			f, rt := a.Retransmit()
			return f, rt > 0, map[string]int{"retransmissions": rt}
		}),
		Budget: retryBudget,
	})
	// ---------------- C17
	fw.Register(&fw.Prop{
		ID: "C17", Level: "fault_enumeration",
		Rule: "workloads in which the broker model pushes tagged messages right behind every CONNACK (same buffer), mid-connection and before cuts, while the handler is registered before Connect, after Connect, replaced between reconnects or set to nil; Active callback slowed down in one workload, PUBREL of an inbound QoS 2 message withheld while the handler is registered/replaced, and a storm of Handle calls (with the stats lock kept read-held) across reconnects; single cuts, sampled pairs, random plans. " +
			"Oracle: every inbound QoS 0/1 PUBLISH (and QoS 2 PUBLISH+PUBREL on one connection) fully consumed by the client while handler h was registered (no Handle call in flight) is handed to h exactly once; when handler numbers only grow, the interval-free rule L <= h <= U of DESIGN.md (C17) is used instead. Non-trivial: inbound messages checked on >=2 connections of a run.",
		Assumptions: []string{"release of an inbound QoS 2 message whose PUBLISH arrived on an earlier connection is not asserted", "handler entries are recorded when the handler is entered and the analysis runs after tear-down, so the last packet consumed on a connection is judged like any other"},
		Gen: func(tier string, seed int64) []fw.Case {
			return genRetry(retrySpec{
				Workloads:   []string{"in1", "in2", "in3", "in4", "in5", "in6", "in7", "in8"},
				Configs:     append(withClients(cfgs([]string{"A"}, []string{"keep", "lose"}, []bool{false}), 1, "retry", "retry-retryfirst"), retryParams{Cfg: scen.BrokerCfg{Method: "A", Session: "keep", Redeliver: true}, Chunk: 1}, retryParams{Cfg: scen.BrokerCfg{Method: "A", Session: "lose"}, Preset: true}),
				Singles:     true,
				PairsSample: scale(tier, 60, 4000),
				Random:      scale(tier, 100, 12000),
				Fuzz:        scale(tier, 80, 20000),
				Repeat:      scale(tier, 400, 6000),
			}, tier)
		},
		Run: runRetryCase("C17", func(a *scen.Analysis) ([]scen.Finding, bool, map[string]int) {
			f, checked, conns := a.HandlerCheck()
			return f, len(conns) >= 2, map[string]int{"inbound_checked": checked}
		}),
		Budget: retryBudget,
	})
}

func pick(tier string, quick, thorough []string) []string {
	if tier == "thorough" {
		return thorough
	}
	return quick
}
