package checks

import (
	"fmt"
	"math/rand"
	"os"
	"strings"
	"time"

	"verif/fw"
	"verif/mqttref"
	"verif/scen"
)

// ---- workloads shared by C01 C02 C03 C08 C12 C17 ----

type workload struct {
	PingMs, TimeoutMs int // keep-alive interval and ping/connect timeout (0: off / default)
	Name              string
	Pre               []scen.Step
	Steps             []scen.Step
	OnC               [][]scen.InMsg
	Slow              bool
}

func pub(q byte, tag string) scen.Step { return scen.Step{Op: "pub", QoS: q, Tag: tag} }
func pubw(q byte, tag string) scen.Step {
	return scen.Step{Op: "pub", QoS: q, Tag: tag, Wait: true}
}
func sub(subs ...scen.SubSpec) scen.Step { return scen.Step{Op: "sub", Subs: subs} }
func subw(subs ...scen.SubSpec) scen.Step {
	return scen.Step{Op: "sub", Subs: subs, Wait: true}
}
func unsub(f ...string) scen.Step      { return scen.Step{Op: "unsub", Filters: f} }
func unsubw(f ...string) scen.Step     { return scen.Step{Op: "unsub", Filters: f, Wait: true} }
func ss(f string, q byte) scen.SubSpec { return scen.SubSpec{F: f, Q: q} }
func op(o string) scen.Step            { return scen.Step{Op: o} }
func inj(tag string, q byte) scen.Step {
	return scen.Step{Op: "inject", In: &scen.InMsg{Tag: tag, QoS: q}}
}
func handle(h int) scen.Step { return scen.Step{Op: "handle", H: h} }

var workloads = map[string]workload{
	// everything is asked for before the first connection exists, and nothing in the workload itself forces a reconnect
	"presub": {Pre: []scen.Step{sub(ss("a", 1)), sub(ss("b", 2), ss("c", 0)), unsub("a")}, Steps: []scen.Step{pub(1, "p1"), sub(ss("d", 1))}},
	// the broker stops reading while an acknowledgement is awaited and the reader goroutine is writing a PUBACK
	"stall": {Pre: []scen.Step{handle(1)}, Steps: []scen.Step{pubw(1, "a"), pub(1, "b"), op("stallinject"), pub(2, "c"), pub(1, "d")}},
	// established subscriptions, then a cut: with a session-less broker the next connection re-subscribes
	"resub": {Steps: []scen.Step{subw(ss("u/a", 1)), subw(ss("u/b", 2)), pubw(1, "x"), op("cut"), pub(1, "y"), pub(2, "z")}},
	// QoS 2 messages accepted before the first connection exists (and while its establishment fails)
	"preq2": {Pre: []scen.Step{pub(2, "a"), pub(1, "b"), pub(2, "c")}, Steps: []scen.Step{pub(2, "d")}},
	// requests in flight while a hand-written loop switches clients make-before-break
	"sw1": {Steps: []scen.Step{pub(1, "a"), op("switch"), pub(2, "b"), sub(ss("u/s1", 1)), op("switch"), pub(1, "c"), pub(2, "d"), op("cut"), pub(1, "e"), op("switch"), unsub("u/s1"), pub(2, "f")}},
	// make-before-break: the hand-written loops install a new client while the previous connection is still open and
	// a message arrives on it (for the library's own loop "switch" does nothing)
	"in8": {Pre: []scen.Step{handle(1)}, OnC: [][]scen.InMsg{{{Tag: "m0", QoS: 1}}, {{Tag: "n0", QoS: 0}}},
		Steps: []scen.Step{pubw(1, "a"), inj("i1", 1), op("switch"), pub(1, "b"), inj("i2", 1), handle(2), op("switch"), pub(1, "c"), op("cut"), pub(1, "d"), op("switch"), inj("i3", 2), pub(1, "e")}},
	// one-shot handlers: every handler installs its successor from inside the callback, across reconnects
	"in7": {Pre: []scen.Step{handle(80)}, OnC: [][]scen.InMsg{{{Tag: "m0", QoS: 1}, {Tag: "m1", QoS: 0}}, {{Tag: "n0", QoS: 1}, {Tag: "n1", QoS: 2}}},
		Steps: []scen.Step{pub(1, "a"), inj("i1", 1), pub(1, "b"), op("cut"), pub(1, "c"), inj("i2", 0), inj("i3", 2), pub(2, "d"), op("cut"), pub(1, "e"), inj("i4", 1), pub(1, "f")}},
	// keep-alive running: PINGREQ/PINGRESP interleave with the exchanges; a silent period ends a connection by ping timeout
	"ka": {PingMs: 2, TimeoutMs: 9, Steps: []scen.Step{pub(1, "a"), pub(2, "b"), {Op: "sleep", Ms: 5}, pub(1, "c"), op("silentping"), pub(2, "d"), {Op: "sleep", Ms: 14}, sub(ss("u/s1", 1)), op("pingok"), pub(1, "e"), {Op: "sleep", Ms: 5}, pub(2, "f")}},
	// a responding handler publishes through the retrying client from inside the reader goroutine
	"respond": {Pre: []scen.Step{handle(91)}, OnC: [][]scen.InMsg{{{Tag: "m0", QoS: 1}}, {{Tag: "n0", QoS: 0}}},
		Steps: []scen.Step{pub(1, "a"), inj("i1", 1), pub(2, "b"), op("cut"), inj("i2", 2), pub(1, "c"), inj("i3", 0), pub(1, "d")}},
	"subs7": {Steps: []scen.Step{pub(1, "p0"), sub(ss("a", 1)), unsub("a"), sub(ss("b", 1)), sub(ss("b", 2)), pub(1, "p1")}},
	"q2sub": {Steps: []scen.Step{subw(ss("u/s1", 1)), pub(2, "a"), sub(ss("u/s2", 2)), pub(2, "b"), op("cut"), pub(2, "c")}},
	// the client subscribes to what it publishes: inbound traffic (acknowledged by the reader goroutine) runs
	// alongside the outbound exchanges; only meaningful with the Echo broker configuration
	"echo":    {Pre: []scen.Step{handle(1)}, Steps: []scen.Step{subw(ss("t/#", 2)), pub(1, "a"), pub(2, "b"), pub(0, "z"), pub(2, "c"), op("cut"), pub(1, "d"), pub(2, "e")}},
	"idlecut": {Steps: []scen.Step{pubw(1, "a"), op("cut")}},
	"q1x3":    {Steps: []scen.Step{pub(1, "a"), pub(1, "b"), pub(1, "c")}},
	"q2x1":    {Steps: []scen.Step{pub(2, "a")}},
	"q2x2":    {Steps: []scen.Step{pub(2, "a"), pub(2, "b")}},
	"q2x3":    {Steps: []scen.Step{pub(2, "a"), pub(2, "b"), pub(2, "c")}},
	"q2mix":   {Steps: []scen.Step{pub(2, "a"), pub(1, "b"), pub(2, "c"), pub(0, "z")}},
	"mixed":   {Steps: []scen.Step{pub(1, "a"), pub(2, "b"), pub(0, "z"), sub(ss("u/s1", 1), ss("x/+", 0)), pub(1, "d"), unsub("u/s2", "x/+"), pub(2, "e")}},
	"pre":     {Pre: []scen.Step{pub(1, "a"), sub(ss("u/s1", 2)), pub(2, "b"), pub(0, "z")}, Steps: []scen.Step{pub(1, "c")}},
	"waits":   {Steps: []scen.Step{pubw(1, "a"), pubw(2, "b"), subw(ss("u/s1", 1)), pub(1, "c"), unsubw("u/s1"), pub(2, "d")}},
	"outage":  {Steps: []scen.Step{pubw(1, "a"), op("down"), pub(1, "b"), pub(0, "z"), pub(2, "c"), sub(ss("u/s1", 1)), unsub("u/s0"), op("up"), pub(1, "d")}},
	"outage2": {Steps: []scen.Step{subw(ss("u/s1", 1)), op("down"), pub(2, "a"), unsub("u/s1"), pub(1, "b"), op("up"), op("cut"), pub(2, "c")}},
	"preset":  {Steps: []scen.Step{{Op: "pub", QoS: 1, Tag: "a", ID: 100}, {Op: "pub", QoS: 2, Tag: "b", Dup: true, Retain: true}, {Op: "pub", QoS: 2, Tag: "c", ID: 7}, {Op: "pub", QoS: 1, Tag: "d", Dup: true}, {Op: "pub", QoS: 0, Tag: "z", Dup: true, Retain: true}}},
	// subscription bookkeeping
	"subs1": {Steps: []scen.Step{sub(ss("a", 1)), sub(ss("a", 2)), sub(ss("b", 0), ss("c", 1)), unsub("b"), pub(1, "p1"), sub(ss("a", 1)), unsub("a"), unsub("zz")}},
	"subs2": {Steps: []scen.Step{subw(ss("a", 1)), subw(ss("a", 1)), unsubw("a"), pub(1, "p1"), op("cut"), pub(1, "p2")}},
	"subs3": {Steps: []scen.Step{subw(ss("x", 1)), subw(ss("y", 1)), subw(ss("w", 2)), unsubw("x", "x"), op("cut"), pub(1, "p1")}},
	"subs4": {Steps: []scen.Step{subw(ss("a", 1)), subw(ss("k", 0)), op("down"), pub(1, "p1"), unsub("a"), op("up"), pub(1, "p2")}},
	"subs5": {Steps: []scen.Step{sub(ss("d", 1), ss("d", 2)), sub(ss("e", 1)), unsub("e", "f"), sub(ss("g", 0), ss("h", 2), ss("i", 1)), unsub("h"), pub(2, "p1"), sub(ss("h", 0))}},
	"subs6": {Pre: []scen.Step{sub(ss("a", 1)), unsub("a"), sub(ss("b", 2))}, Steps: []scen.Step{subw(ss("c", 1)), op("cut"), unsub("b"), op("cut"), pub(1, "p1")}},
	// inbound / handler
	"in1": {Pre: []scen.Step{handle(1)}, OnC: [][]scen.InMsg{{{Tag: "m0", QoS: 0}, {Tag: "m1", QoS: 1}}, {{Tag: "n0", QoS: 1}, {Tag: "n1", QoS: 0}, {Tag: "n2", QoS: 2}}},
		Steps: []scen.Step{pub(1, "a"), inj("i1", 1), pub(1, "b"), op("cut"), pub(1, "c"), inj("i2", 0), pub(2, "d"), inj("i3", 2), pub(1, "e")}},
	"in2": {OnC: [][]scen.InMsg{{{Tag: "m0", QoS: 1}}, {{Tag: "n0", QoS: 0}, {Tag: "n1", QoS: 1}}},
		Steps: []scen.Step{handle(1), pubw(1, "a"), inj("i1", 1), pubw(1, "b"), handle(2), pub(1, "c"), inj("i2", 1), op("cut"), pub(1, "d"), inj("i3", 0), pubw(1, "e"), handle(3), inj("i4", 1), op("cut"), pub(1, "f"), inj("i5", 1), pub(1, "g")}},
	"in3": {Pre: []scen.Step{handle(1)}, Slow: true, OnC: [][]scen.InMsg{{{Tag: "m0", QoS: 1}, {Tag: "m1", QoS: 0}}},
		Steps: []scen.Step{pub(1, "a"), op("cut"), pub(1, "b"), op("cut"), pub(2, "c")}},
	// held PUBREL: the handler is registered / replaced between an inbound QoS 2 PUBLISH and its PUBREL
	"in5": {OnC: [][]scen.InMsg{{{Tag: "m0", QoS: 2, Hold: true}}},
		Steps: []scen.Step{pubw(1, "a"), handle(1), op("release"), pubw(1, "b"), {Op: "inject", In: &scen.InMsg{Tag: "i1", QoS: 2, Hold: true}}, pubw(1, "c"), handle(2), op("release"), pubw(1, "d"),
			op("cut"), pubw(1, "e"), {Op: "inject", In: &scen.InMsg{Tag: "i2", QoS: 2, Hold: true}}, pubw(1, "f"), handle(3), op("release"), pub(1, "g")}},
	// the handler is replaced continuously while connections come and go and messages arrive behind every CONNACK
	"in6": {Pre: []scen.Step{handle(1)}, OnC: [][]scen.InMsg{{{Tag: "m0", QoS: 1}, {Tag: "m1", QoS: 0}}},
		Steps: []scen.Step{op("hstorm"), pub(1, "a"), op("cut"), pub(1, "b"), inj("i1", 1), op("cut"), pub(1, "c"), op("cut"), pub(2, "d"), inj("i2", 0), op("cut"), pub(1, "e"), op("hstop"), pubw(1, "f")}},
	"in4": {Pre: []scen.Step{handle(1)}, OnC: [][]scen.InMsg{{{Tag: "m0", QoS: 1}}},
		Steps: []scen.Step{pubw(1, "a"), handle(0), inj("i1", 1), pubw(1, "b"), op("cut"), pubw(1, "c"), inj("i2", 1), pubw(1, "d"), handle(2), op("cut"), pub(1, "e"), inj("i3", 2), pub(1, "f")}},
}

func (w workload) hasStorm() bool {
	for _, s := range w.Steps {
		if s.Op == "hstorm" {
			return true
		}
	}
	return false
}

func (w workload) hasCut() bool {
	for _, s := range w.Steps {
		if s.Op == "cut" || s.Op == "down" {
			return true
		}
	}
	return false
}

// reqPackets estimates the number of client->broker request packets of a fault-free run (incl. CONNECT and sentinel).
func (w workload) reqPackets() int {
	n := 2
	for _, l := range [][]scen.Step{w.Pre, w.Steps} {
		for _, s := range l {
			switch s.Op {
			case "pub":
				n++
				if s.QoS == 2 {
					n++
				}
			case "sub", "unsub":
				n++
			case "down", "cut":
				n++ // reconnect: one more CONNECT
			}
		}
	}
	return n
}

type retryParams struct {
	W      string         `json:"w"`
	Cfg    scen.BrokerCfg `json:"cfg"`
	Always bool           `json:"always,omitempty"`
	Chunk  int            `json:"chunk,omitempty"`
	Late   bool           `json:"late,omitempty"`
	Slow   int            `json:"slow,omitempty"`
	Close  string         `json:"close,omitempty"`  // transport error style after a local Close
	Linger int            `json:"linger,omitempty"` // transport Close returns late
	Preset bool           `json:"preset,omitempty"` // the Dialer's clients carry a handler of their own
	Client string         `json:"client,omitempty"` // "" = reconnect | retry | retry-retryfirst
	Mode   string         `json:"mode"`             // single | pairs | random | steer | one
	Part   int            `json:"part,omitempty"`
	Of     int            `json:"of,omitempty"`
	N      int            `json:"n,omitempty"`
	One    *scen.Scenario `json:"one,omitempty"`
}

func (p retryParams) base() scen.Scenario {
	w, ok := workloads[p.W]
	if !ok {
		panic("unknown workload " + p.W)
	}
	cl := p.Client
	if cl == "" {
		cl = "reconnect"
	}
	if p.W == "echo" {
		p.Cfg.Echo = true
	}
	return scen.Scenario{Client: cl, Cfg: p.Cfg, AlwaysResub: p.Always, Chunk: p.Chunk, LateWriteOK: p.Late, SlowReturn: p.Slow, CloseStyle: p.Close, CloseLinger: p.Linger, DialerPresetsHandler: p.Preset, Pre: w.Pre, Steps: w.Steps, OnConnect: w.OnC, SlowActive: w.Slow, PingMs: w.PingMs, TimeoutMs: w.TimeoutMs}
}

func cfgName(c scen.BrokerCfg, always bool, chunk int, late bool) string {
	s := c.Method + "/" + c.Session
	if c.Echo {
		s += "/echo"
	}
	if c.Redeliver {
		s += "/redeliver"
	}
	if always {
		s += "/always"
	}
	if chunk > 0 {
		s += fmt.Sprintf("/chunk%d", chunk)
	}
	if late {
		s += "/lateok"
	}
	return s
}

type retrySpec struct {
	Workloads   []string
	Configs     []retryParams // Cfg/Always/Chunk/Late
	Singles     bool
	Pairs       []string // workloads with exhaustive pair sweeps
	PairsSample int      // sampled pairs for other workloads (per workload/config)
	Random      int      // random plans per workload/config
	Steer       bool
	Drops       bool // silently dropped acknowledgements with a ResponseTimeout configured
	RandHist    int  // seeded random subscription histories (scenarios per config)
	Repeat      int  // repetitions of storm workloads (schedule sampling)
	Fuzz        int  // fully random scenarios: workload, configuration, client kind and fault plan all drawn
}

func cfgs(methods, sessions []string, always []bool) []retryParams {
	var out []retryParams
	i := 0
	for _, m := range methods {
		for _, s := range sessions {
			for _, a := range always {
				i++
				out = append(out, retryParams{Cfg: scen.BrokerCfg{Method: m, Session: s}, Always: a, Chunk: []int{0, 1, 0, 3}[i%4], Late: i%3 == 0, Slow: []int{0, 2, 0}[i%3], Close: []string{"pipe", "net", ""}[i%3], Linger: []int{0, 0, 2, 0}[(i+1)%4]})
			}
		}
	}
	return out
}

// withClients appends copies of the first n configurations that run the hand-written retry loop
// (RetryClient through the Retryer contract) instead of the library's ReconnectClient.
func withClients(c []retryParams, n int, kinds ...string) []retryParams {
	out := append([]retryParams{}, c...)
	for i := 0; i < n && i < len(c); i++ {
		for _, k := range kinds {
			x := c[i]
			x.Client = k
			out = append(out, x)
		}
	}
	return out
}

func genRetry(spec retrySpec, tier string) []fw.Case {
	var cs []fw.Case
	for _, wn := range spec.Workloads {
		w := workloads[wn]
		n := w.reqPackets()
		for _, c := range spec.Configs {
			c.W = wn
			name := wn + "/" + cfgName(c.Cfg, c.Always, c.Chunk, c.Late)
			if c.Client != "" {
				name += "/" + c.Client
			}
			if spec.Singles {
				c.Mode = "single"
				cs = append(cs, fw.Mk("single/"+name, c))
			}
			pairsExh := false
			for _, pw := range spec.Pairs {
				if pw == wn {
					pairsExh = true
				}
			}
			if pairsExh {
				total := n * (n - 1) / 2 * 16
				parts := (total + 199) / 200
				for i := 0; i < parts; i++ {
					c.Mode, c.Part, c.Of = "pairs", i, parts
					cs = append(cs, fw.Mk(fmt.Sprintf("pairs/%s/%d", name, i), c))
				}
			} else if spec.PairsSample > 0 {
				ps := spec.PairsSample
				if w.hasStorm() {
					ps = ps/10 + 10 // storm workloads are slow; repetition (below) is their main mode
				}
				per := 500
				for i := 0; i*per < ps; i++ {
					k := per
					if ps-i*per < k {
						k = ps - i*per
					}
					c.Mode, c.N, c.Part, c.Of = "pairsample", k, i, 0
					cs = append(cs, fw.Mk(fmt.Sprintf("pairsample/%s/%d", name, i), c))
				}
			}
			if spec.Random > 0 {
				per := 100
				nr := spec.Random
				if w.hasStorm() {
					nr = nr/10 + 10
				}
				for i := 0; i*per < nr; i++ {
					k := per
					if nr-i*per < k {
						k = nr - i*per
					}
					c.Mode, c.N, c.Part = "random", k, i
					cs = append(cs, fw.Mk(fmt.Sprintf("random/%s/%d", name, i), c))
				}
			}
			if spec.RandHist > 0 && wn == spec.Workloads[0] {
				per := 40
				for i := 0; i*per < spec.RandHist; i++ {
					c.Mode, c.N, c.Part = "randhist", per, i
					cs = append(cs, fw.Mk(fmt.Sprintf("randhist/%s%s/%d", cfgName(c.Cfg, c.Always, c.Chunk, c.Late), c.Client, i), c))
				}
			}
			if spec.Fuzz > 0 && wn == spec.Workloads[0] && c.Client == "" && c.Cfg == spec.Configs[0].Cfg && c.Always == spec.Configs[0].Always {
				per := 40
				for i := 0; i*per < spec.Fuzz; i++ {
					c.Mode, c.N, c.Part = "fuzz", per, i
					cs = append(cs, fw.Mk(fmt.Sprintf("fuzz/%d", i), c))
				}
			}
			if spec.Repeat > 0 && w.hasStorm() {
				for i := 0; i*50 < spec.Repeat; i++ {
					c.Mode, c.N, c.Part = "repeat", 50, i
					cs = append(cs, fw.Mk(fmt.Sprintf("repeat/%s/%d", name, i), c))
				}
			}
			if spec.Drops && (c.Client == "" || wn == "subs7" || wn == "q2x2") {
				// (dropped acknowledgements need real time-outs: the full matrix only for the library's own loop)
				c.Mode, c.N, c.Part = "drops", 0, 0
				cs = append(cs, fw.Mk("drops/"+name, c))
			}
			if spec.Steer {
				c.Mode, c.N, c.Part = "steer", 0, 0
				cs = append(cs, fw.Mk("steer/"+name, c))
			}
		}
	}
	return cs
}

// randSubHistory draws a Subscribe/Unsubscribe history over a small filter set: repeated filters,
// changed QoS, multi-filter calls, duplicates inside one call, absent filters, interleaved
// publishes, idle cuts and outages, some calls before Connect.
func randSubHistory(rng *rand.Rand) (pre, steps []scen.Step) {
	fl := []string{"a", "b", "c", "d", "e/+", "f/#"}
	n := 3 + rng.Intn(8)
	tag := 0
	mk := func() scen.Step {
		switch rng.Intn(10) {
		case 0, 1, 2, 3:
			k := 1 + rng.Intn(3)
			var subs []scen.SubSpec
			for i := 0; i < k; i++ {
				subs = append(subs, ss(fl[rng.Intn(len(fl))], byte(rng.Intn(3))))
			}
			if rng.Intn(5) == 0 {
				subs = append(subs, ss(subs[0].F, byte(rng.Intn(3)))) // same filter twice in one call
			}
			return scen.Step{Op: "sub", Subs: subs, Wait: rng.Intn(2) == 0}
		case 4, 5, 6:
			k := 1 + rng.Intn(2)
			var f []string
			for i := 0; i < k; i++ {
				f = append(f, fl[rng.Intn(len(fl))])
			}
			if rng.Intn(3) == 0 {
				f = append(f, f[rng.Intn(len(f))]) // duplicate inside one Unsubscribe
			}
			return scen.Step{Op: "unsub", Filters: f, Wait: rng.Intn(2) == 0}
		case 7:
			tag++
			return scen.Step{Op: "pub", QoS: byte(rng.Intn(3)), Tag: fmt.Sprintf("p%d", tag), Wait: rng.Intn(2) == 0}
		case 8:
			return op("cut")
		default:
			if rng.Intn(2) == 0 {
				return op("down")
			}
			return op("up")
		}
	}
	for i := rng.Intn(3); i > 0; i-- {
		st := mk()
		if st.Op == "sub" || st.Op == "unsub" || st.Op == "pub" {
			st.Wait = false
			pre = append(pre, st)
		}
	}
	down := false
	for i := 0; i < n; i++ {
		st := mk()
		switch st.Op {
		case "down":
			down = true
		case "up":
			down = false
		}
		if down {
			st.Wait = false // nothing can be acknowledged during an outage
		}
		steps = append(steps, st)
	}
	steps = append(steps, op("up"), op("cut"), pub(1, "last"))
	return pre, steps
}

// plans enumerates the scenarios of one case.
func (p retryParams) scenarios(rng *rand.Rand) []scen.Scenario {
	w := workloads[p.W]
	n := w.reqPackets()
	var out []scen.Scenario
	add := func(f []scen.Fault, dial []int, mod func(*scen.Scenario)) {
		s := p.base()
		s.Faults = f
		s.DialFail = dial
		if mod != nil {
			mod(&s)
		}
		out = append(out, s)
	}
	switch p.Mode {
	case "one":
		return []scen.Scenario{*p.One}
	case "repeat":
		// the workload brings its own cuts and a Handle/Stats storm: repetition samples schedules
		for i := 0; i < p.N; i++ {
			add(nil, nil, nil)
		}
	case "fuzz":
		for i := 0; i < p.N; i++ {
			out = append(out, fuzzScenario(rng))
		}
	case "randhist":
		for i := 0; i < p.N; i++ {
			pre, steps := randSubHistory(rng)
			var plans [][]scen.Fault
			plans = append(plans, nil)
			for j := 0; j < 3; j++ {
				var f []scen.Fault
				at := 1
				for k := rng.Intn(3) + 1; k > 0; k-- {
					at += 1 + rng.Intn(6)
					f = append(f, scen.Fault{At: at, Kind: scen.CutKinds[rng.Intn(4)]})
				}
				plans = append(plans, f)
			}
			for _, f := range plans {
				f := f
				add(f, nil, func(s *scen.Scenario) { s.Pre, s.Steps = pre, steps })
			}
		}
	case "single":
		add(nil, nil, nil)
		for k := 1; k <= n+1; k++ {
			for _, kind := range scen.CutKinds {
				add([]scen.Fault{{At: k, Kind: kind}}, nil, nil)
			}
		}
		add([]scen.Fault{{At: 1, Kind: "refuse:3"}}, nil, nil)
		add([]scen.Fault{{At: 1, Kind: "refuse:5"}, {At: 2, Kind: "refuse:4"}}, []int{2}, nil)
		add(nil, []int{1, 2, 3}, nil)
	case "pairs":
		i := 0
		for k1 := 1; k1 <= n; k1++ {
			for k2 := k1 + 1; k2 <= n+1; k2++ {
				for _, a := range scen.CutKinds {
					for _, b := range scen.CutKinds {
						if i%p.Of == p.Part {
							add([]scen.Fault{{At: k1, Kind: a}, {At: k2, Kind: b}}, nil, nil)
						}
						i++
					}
				}
			}
		}
	case "pairsample":
		for i := 0; i < p.N; i++ {
			k1 := 1 + rng.Intn(n)
			k2 := k1 + 1 + rng.Intn(4)
			f := []scen.Fault{{At: k1, Kind: scen.CutKinds[rng.Intn(4)]}, {At: k2, Kind: scen.CutKinds[rng.Intn(4)]}}
			if i%2 == 1 { // triples: a retry pass that fails again at a later entry
				f = append(f, scen.Fault{At: k2 + 1 + rng.Intn(4), Kind: scen.CutKinds[rng.Intn(4)]})
			}
			add(f, nil, nil)
		}
	case "random":
		for i := 0; i < p.N; i++ {
			nf := 1 + rng.Intn(6)
			var f []scen.Fault
			used := map[int]bool{}
			for j := 0; j < nf; j++ {
				at := 1 + rng.Intn(n+4)
				if used[at] {
					continue
				}
				used[at] = true
				kind := scen.CutKinds[rng.Intn(4)]
				switch rng.Intn(12) {
				case 0:
					kind = fmt.Sprintf("refuse:%d", 1+rng.Intn(5))
				case 1:
					kind = scen.NoConnack
				case 2:
					kind = fmt.Sprintf("refuseopen:%d", 1+rng.Intn(5))
				case 3:
					if i%4 == 0 {
						kind = []string{scen.DropResp, scen.DropReq}[rng.Intn(2)] // only in plans that configure a response timeout (below)
					}
				}
				f = append(f, scen.Fault{At: at, Kind: kind})
			}
			var dial []int
			for j := rng.Intn(3); j > 0; j-- {
				dial = append(dial, 1+rng.Intn(6))
			}
			hasNoConnack := false
			for _, x := range f {
				if x.Kind == scen.NoConnack {
					hasNoConnack = true
				}
			}
			hasDrop := false
			for _, x := range f {
				if x.Kind == scen.DropResp || x.Kind == scen.DropReq {
					hasDrop = true
				}
			}
			add(f, dial, func(s *scen.Scenario) {
				if hasNoConnack {
					s.TimeoutMs = 25
				}
				if hasDrop {
					s.RespMs, s.TimeoutMs = 8, 40
				}
				s.WaitBaseMs, s.WaitMaxMs = 1, []int{1, 2, 4}[rng.Intn(3)]
			})
		}
	case "drops":
		// the acknowledgement of the k-th request packet is silently dropped (link stays up) and
		// ResponseTimeout ends the wait; alone, followed by a cut, or preceded by a cut
		withResp := func(s *scen.Scenario) { s.RespMs, s.TimeoutMs = 8, 40 }
		for k := 2; k <= n+1; k++ {
			add([]scen.Fault{{At: k, Kind: scen.DropResp}}, nil, withResp)
			// the request itself is swallowed by a stalled link (the broker never sees it), alone and followed by a cut
			add([]scen.Fault{{At: k, Kind: scen.DropReq}}, nil, withResp)
			add([]scen.Fault{{At: k, Kind: scen.DropReq}, {At: k + 1, Kind: scen.CutKinds[k%4]}}, nil, withResp)
			for d := 1; d <= 3; d++ {
				kind := scen.CutKinds[(k+d)%4]
				add([]scen.Fault{{At: k, Kind: scen.DropResp}, {At: k + d, Kind: kind}}, nil, withResp)
				add([]scen.Fault{{At: k, Kind: kind}, {At: k + d, Kind: scen.DropResp}}, nil, withResp)
				add([]scen.Fault{{At: k, Kind: scen.DropResp}, {At: k + d, Kind: scen.DropResp}}, nil, withResp)
			}
		}
	case "steer":
		steerSets := [][]scen.Step{
			{pub(1, "s1")},
			{pub(2, "s2"), pub(1, "s3")},
			{sub(ss("u/st", 1)), pub(1, "s4")},
			{unsub("u/none"), pub(2, "s5")},
		}
		for _, at := range []string{"connopt", "dialer", "active", "onerror"} {
			for conn := 1; conn <= 2; conn++ {
				for _, st := range steerSets {
					for _, cut := range []int{0, 2, 3} {
						var f []scen.Fault
						if conn == 2 && cut == 0 && !w.hasCut() {
							continue
						}
						if at == "onerror" && (cut == 0 || conn == 2) {
							continue // OnError needs a failing request; only its first call is steered
						}
						if at == "active" && conn == 2 && cut == 0 {
							continue
						}
						if cut > 0 {
							f = []scen.Fault{{At: cut, Kind: scen.CutAfter}}
						}
						st := st
						add(f, nil, func(s *scen.Scenario) { s.SteerAt, s.SteerConn, s.SteerSteps = at, conn, st })
						if at == "dialer" {
							for rep := 0; rep < 6; rep++ { // the select between wake-up and client switch is a coin flip
								add(f, nil, func(s *scen.Scenario) { s.SteerAt, s.SteerConn, s.SteerSteps, s.SteerNoGrace = at, conn, st, true })
							}
						}
					}
				}
			}
		}
	}
	return out
}

// monitor selection per property
type monFn func(a *scen.Analysis) (findings []scen.Finding, nontrivial bool, counters map[string]int)

func runRetryCase(prop string, mon monFn) func(c fw.Case, env *fw.Env) fw.Result {
	return func(c fw.Case, env *fw.Env) fw.Result {
		var p retryParams
		fw.Params(c, &p)
		rng := env.Rng(c)
		r := fw.Result{Counters: map[string]int{}}
		incon := 0
		for _, sc := range p.scenarios(rng) {
			sc := sc
			t0 := time.Now()
			run := scen.Exec(&sc)
			if env.Replay && time.Since(t0) > 200*time.Millisecond {
				fmt.Printf("slow scenario %.2fs: faults=%v steer=%s/%d nograce=%v %v\n", time.Since(t0).Seconds(), sc.Faults, sc.SteerAt, sc.SteerConn, sc.SteerNoGrace, sc.SteerSteps)
				if os.Getenv("VERIF_DEBUG") != "" {
					fmt.Println(strings.Join(run.Tr.Dump(0), "\n"))
					os.Exit(9)
				}
			}
			r.Evals++
			if run.Inconcl != "" {
				incon++
				r.Counters["inconclusive_runs"]++
				if incon > 3 {
					r.Verdict = fw.Inconclusive
					r.Detail = run.Inconcl + "\n" + strings.Join(run.Tr.Dump(30), "\n")
					return r
				}
				continue
			}
			a := scen.Analyse(run)
			if a.IDCollision != "" {
				r.Counters["skipped_id_collision"]++
			}
			f, nt, cnt := mon(a)
			for k, v := range cnt {
				r.Counters[k] += v
			}
			if run.Stuck {
				r.Counters["certified_stuck_runs"]++
			}
			r.Counters["connections"] += a.Connections()
			for _, e := range a.Ev {
				if e.Kind == "fault" && e.Pkt != nil {
					r.Counters["fired:"+e.S+"@"+mqttref.TypeName(e.Pkt.Type)]++
				}
			}
			if sc.SteerAt != "" {
				r.Counters["steered:"+sc.SteerAt]++
			}
			r.Counters["client:"+sc.Client]++
			if len(f) > 0 {
				r.Verdict = fw.Violated
				r.Sig = f[0].Sig
				r.Detail = fmt.Sprintf("%s\nclient=%s workload=%s cfg=%s faults=%v dial_fail=%v steer=%s/%d %v\nfired: %s", f[0].Detail, sc.Client, p.W, cfgName(sc.Cfg, sc.AlwaysResub, sc.Chunk, sc.LateWriteOK), sc.Faults, sc.DialFail, sc.SteerAt, sc.SteerConn, sc.SteerSteps, a.FaultShape())
				if run.GoDump != "" {
					r.Detail += "\nlibrary goroutines:\n" + run.GoDump
				}
				for _, x := range f[1:] {
					r.More = append(r.More, fw.Finding{Sig: x.Sig, Detail: x.Detail})
				}
				r.Trace = a.Tail(120)
				r.Sample = sc
				single := p
				single.Mode, single.One = "one", &sc
				rc := fw.Mk(c.Name+" (single scenario)", single)
				r.ReplayCase = &rc
				return r
			}
			if env.Replay {
				r.Trace = a.Tail(400)
				r.Detail = fmt.Sprintf("quiescent=%v stuck=%v inconcl=%q", run.Quiescent, run.Stuck, run.Inconcl)
			}
			if nt {
				r.NT = append(r.NT, fw.Hash(prop, sc.Client, p.W, cfgName(sc.Cfg, sc.AlwaysResub, sc.Chunk, sc.LateWriteOK), a.FaultShape(), sc.SteerAt, sc.SteerConn, fmt.Sprint(sc.SteerSteps), stepsKey(&sc)))
			}
			if r.Sample == nil && nt {
				r.Sample = map[string]interface{}{"workload": p.W, "cfg": cfgName(sc.Cfg, sc.AlwaysResub, sc.Chunk, sc.LateWriteOK), "faults_planned": fmt.Sprint(sc.Faults), "faults_fired": a.FaultShape(),
					"connections": a.Connections(), "retransmissions": a.Retransmissions(), "trace_tail": a.Tail(14)}
			}
		}
		return r
	}
}

func retryBudget(tier string) time.Duration {
	if tier == "thorough" {
		return 40 * time.Minute
	}
	return 10 * time.Minute
}

func scale(tier string, quick, thorough int) int {
	if tier == "thorough" {
		return thorough
	}
	return quick
}

func stepsKey(sc *scen.Scenario) string {
	var b strings.Builder
	for _, l := range [][]scen.Step{sc.Pre, sc.Steps} {
		for _, s := range l {
			b.WriteString(s.String())
			if s.Wait {
				b.WriteString("!")
			}
			b.WriteString(";")
		}
		b.WriteString("|")
	}
	return b.String()
}

// fuzzScenario draws everything: a workload mixing publishes of all QoS levels (some with caller-set id and
// flags), subscribe/unsubscribe calls over a small filter set, handler (re)registration, inbound messages
// (pushed behind CONNACK and later), idle cuts and outages; the broker configuration, resubscribe policy,
// transport behaviour and client kind; and a fault plan with cuts, refusals, silent CONNACKs, dial failures
// and (with a response timeout configured) dropped acknowledgements.
func fuzzScenario(rng *rand.Rand) scen.Scenario {
	fl := []string{"a", "b", "c", "e/+", "f/#"}
	tag := 0
	hn := 0
	echo := rng.Intn(7) == 0
	mkReq := func() scen.Step {
		switch x := rng.Intn(10); {
		case x < 6:
			tag++
			st := scen.Step{Op: "pub", QoS: byte(rng.Intn(3)), Tag: fmt.Sprintf("p%d", tag), Wait: rng.Intn(3) == 0}
			if rng.Intn(3) == 0 {
				st.QoS = 2
			}
			if rng.Intn(10) == 0 {
				st.Dup, st.Retain = rng.Intn(2) == 0, rng.Intn(2) == 0
				if st.QoS > 0 && rng.Intn(2) == 0 {
					st.ID = uint16(100 + tag)
				}
			}
			return st
		case x < 8:
			k := 1 + rng.Intn(2)
			var subs []scen.SubSpec
			for i := 0; i < k; i++ {
				subs = append(subs, ss(fl[rng.Intn(len(fl))], byte(rng.Intn(3))))
			}
			return scen.Step{Op: "sub", Subs: subs, Wait: rng.Intn(3) == 0}
		default:
			f := []string{fl[rng.Intn(len(fl))]}
			if rng.Intn(3) == 0 {
				f = append(f, fl[rng.Intn(len(fl))])
			}
			return scen.Step{Op: "unsub", Filters: f, Wait: rng.Intn(3) == 0}
		}
	}
	var sc scen.Scenario
	if rng.Intn(4) != 0 {
		hn++
		sc.Pre = append(sc.Pre, handle(hn))
	}
	for i := rng.Intn(3); i > 0; i-- {
		st := mkReq()
		st.Wait = false
		sc.Pre = append(sc.Pre, st)
	}
	if echo {
		if hn == 0 {
			hn++
			sc.Pre = append(sc.Pre, handle(hn))
		}
		sc.Steps = append(sc.Steps, subw(ss("t/#", 2)))
	}
	down := false
	in := 0
	for i, n := 0, 3+rng.Intn(10); i < n; i++ {
		var st scen.Step
		switch x := rng.Intn(20); {
		case x < 12:
			st = mkReq()
		case x < 14 && !down:
			in++
			st = inj(fmt.Sprintf("i%d", in), byte(rng.Intn(3)))
		case x < 15:
			hn++
			st = handle(hn)
		case x < 17 && !down:
			st = op("cut")
		case x < 18:
			if down {
				st = op("up")
			} else {
				st = op("down")
			}
			down = !down
		case x < 19:
			st = scen.Step{Op: "sleep", Ms: 1 + rng.Intn(3)}
		default:
			st = mkReq()
		}
		if down {
			st.Wait = false
		}
		sc.Steps = append(sc.Steps, st)
	}
	if down {
		sc.Steps = append(sc.Steps, op("up"))
	}
	tag++
	sc.Steps = append(sc.Steps, pub(1, fmt.Sprintf("p%d", tag)))
	for c := rng.Intn(3); c > 0; c-- {
		var ms []scen.InMsg
		for k := rng.Intn(3); k > 0; k-- {
			in++
			ms = append(ms, scen.InMsg{Tag: fmt.Sprintf("m%d", in), QoS: byte(rng.Intn(3))})
		}
		sc.OnConnect = append(sc.OnConnect, ms)
	}
	// configuration
	sc.Cfg = scen.BrokerCfg{Method: allMethods[rng.Intn(len(allMethods))], Session: []string{"keep", "lose"}[rng.Intn(2)], Echo: echo}
	sc.AlwaysResub = rng.Intn(4) == 0
	sc.Cfg.Redeliver = sc.Cfg.Session == "keep" && rng.Intn(3) == 0
	sc.Chunk = []int{0, 0, 1, 3}[rng.Intn(4)]
	sc.LateWriteOK = rng.Intn(4) == 0
	sc.SlowReturn = []int{0, 0, 2}[rng.Intn(3)]
	sc.Client = []string{"reconnect", "reconnect", "reconnect", "retry", "retry-retryfirst", "retry-chaotic"}[rng.Intn(6)]
	sc.SlowActive = rng.Intn(8) == 0
	sc.OnErrorPublishes = rng.Intn(6) == 0
	sc.DialerPresetsHandler = rng.Intn(5) == 0
	sc.CloseStyle = []string{"pipe", "net", ""}[rng.Intn(3)]
	sc.CloseLinger = []int{0, 0, 0, 2}[rng.Intn(4)]
	// fault plan
	w := workload{Pre: sc.Pre, Steps: sc.Steps}
	n := w.reqPackets()
	drops := rng.Intn(4) == 0
	used := map[int]bool{}
	for j := rng.Intn(6); j > 0; j-- {
		at := 1 + rng.Intn(n+4)
		if used[at] {
			continue
		}
		used[at] = true
		kind := scen.CutKinds[rng.Intn(4)]
		switch rng.Intn(12) {
		case 0:
			kind = fmt.Sprintf("refuse:%d", 1+rng.Intn(5))
		case 1:
			kind = scen.NoConnack
		case 2:
			kind = fmt.Sprintf("refuseopen:%d", 1+rng.Intn(5))
		case 3, 4:
			if drops {
				kind = []string{scen.DropResp, scen.DropReq}[rng.Intn(2)]
			}
		}
		if kind == scen.NoConnack {
			sc.TimeoutMs = 25
		}
		sc.Faults = append(sc.Faults, scen.Fault{At: at, Kind: kind})
	}
	for j := rng.Intn(3); j > 0 && rng.Intn(2) == 0; j-- {
		sc.DialFail = append(sc.DialFail, 1+rng.Intn(6))
	}
	if drops {
		sc.RespMs, sc.TimeoutMs = 8, 40
	}
	sc.WaitBaseMs, sc.WaitMaxMs = 1, []int{1, 2, 4}[rng.Intn(3)]
	return sc
}
