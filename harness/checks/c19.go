package checks

import (
	"context"
	"errors"
	"fmt"
	"io"
	"math/rand"
	"reflect"
	"strings"

	mqtt "github.com/at-wat/mqtt-go"
	"verif/fw"
)

// legacyErr has an Err field but no Unwrap method (the shape the library's
// reflection rule in Error.Is exists for).
type legacyErr struct {
	Err error
	tag string
}

func (e *legacyErr) Error() string { return "legacy(" + e.tag + ")" }

var c19Sentinels = []struct {
	name string
	err  error
}{
	{"ErrClosedTransport", mqtt.ErrClosedTransport},
	{"ErrInvalidPacket", mqtt.ErrInvalidPacket},
	{"ErrInvalidPacketLength", mqtt.ErrInvalidPacketLength},
	{"ErrPayloadLenExceeded", mqtt.ErrPayloadLenExceeded},
	{"ErrInvalidQoS", mqtt.ErrInvalidQoS},
	{"ErrNotConnected", mqtt.ErrNotConnected},
	{"ErrInvalidSubAck", mqtt.ErrInvalidSubAck},
	{"ErrInvalidRune", mqtt.ErrInvalidRune},
	{"ErrClosedClient", mqtt.ErrClosedClient},
	{"ErrConnectionFailed", mqtt.ErrConnectionFailed},
	{"ErrPingTimeout", mqtt.ErrPingTimeout},
	{"ErrKeepAliveDisabled", mqtt.ErrKeepAliveDisabled},
	{"ErrInvalidTopicFilter", mqtt.ErrInvalidTopicFilter},
	{"io.EOF", io.EOF},
	{"io.ErrUnexpectedEOF", io.ErrUnexpectedEOF},
	{"io.ErrClosedPipe", io.ErrClosedPipe},
	{"context.Canceled", context.Canceled},
	{"context.DeadlineExceeded", context.DeadlineExceeded},
}

// refChain lists the nodes errors.Is must consider, by an independent walk:
// follow Unwrap() error; below a library wrapper (which walks the rest of the
// chain itself) a pointer-to-struct without Unwrap but with an `Err error`
// field is followed too.
func refChain(root error) []error {
	var out []error
	libAbove := false
	for e := root; e != nil; {
		out = append(out, e)
		if isLibWrapper(e) {
			libAbove = true
		}
		if u, ok := e.(interface{ Unwrap() error }); ok {
			e = u.Unwrap()
			continue
		}
		if libAbove {
			v := reflect.ValueOf(e)
			if v.Kind() == reflect.Ptr && !v.IsNil() && v.Elem().Kind() == reflect.Struct {
				f := v.Elem().FieldByName("Err")
				if f.IsValid() && f.CanInterface() {
					if e2, ok := f.Interface().(error); ok {
						e = e2
						continue
					}
				}
			}
		}
		break
	}
	return out
}

func isLibWrapper(e error) bool {
	if _, ok := e.(*mqtt.Error); ok {
		return true
	}
	if _, ok := e.(mqtt.ErrorWithRetry); ok {
		return true
	}
	return false
}

func inChain(chain []error, target error) bool {
	for _, e := range chain {
		if e == target {
			return true
		}
	}
	return false
}

type c19Params struct {
	Mode string `json:"mode"`
	N    int    `json:"n"`
}

func c19Gen(tier string, seed int64) []fw.Case {
	n := 4000
	if tier == "thorough" {
		n = 1000000
	}
	var cs []fw.Case
	for i := 0; i < 16; i++ {
		cs = append(cs, fw.Mk(fmt.Sprintf("chains-%d", i), c19Params{Mode: "chains", N: n}))
	}
	cs = append(cs, c19APIcases(tier)...)
	return cs
}

// buildChain builds a random chain bottom-up and returns it with a description.
func buildChain(rng *rand.Rand, retryCalled *int) (error, string) {
	var desc []string
	var e error
	s := c19Sentinels[rng.Intn(len(c19Sentinels))]
	if rng.Intn(8) == 0 {
		e = errors.New("fresh")
		desc = append(desc, "fresh")
	} else {
		e = s.err
		desc = append(desc, s.name)
	}
	depth := rng.Intn(9)
	for i := 0; i < depth; i++ {
		switch rng.Intn(8) {
		case 0, 1:
			e = mqtt.VerifWrapError(e, "w")
			desc = append(desc, "wrapError")
		case 2:
			e = &mqtt.Error{Err: e, Failure: "lit"}
			desc = append(desc, "&Error")
		case 3:
			e = mqtt.VerifWrapErrorWithRetry(e, func(context.Context, *mqtt.BaseClient) error { *retryCalled++; return nil }, "r")
			desc = append(desc, "wrapErrorWithRetry")
		case 4:
			e = &mqtt.ConnectionError{Err: e, Code: mqtt.NotAuthorized}
			desc = append(desc, "ConnectionError")
		case 5, 6:
			e = fmt.Errorf("ctx: %w", e)
			desc = append(desc, "%w")
		case 7:
			e = &legacyErr{Err: e, tag: "l"}
			desc = append(desc, "legacy")
		}
	}
	return e, strings.Join(desc, "<-")
}

func c19Run(c fw.Case, env *fw.Env) fw.Result {
	var p c19Params
	fw.Params(c, &p)
	if p.Mode != "chains" {
		return c19APIRun(c, env)
	}
	rng := env.Rng(c)
	r := fw.Result{Counters: map[string]int{}}
	fail := func(sig, f string, a ...interface{}) fw.Result {
		r.Verdict = fw.Violated
		r.Sig = sig
		r.Detail = fmt.Sprintf(f, a...)
		return r
	}
	// fixed facts
	if mqtt.VerifWrapError(io.EOF, "x") != io.EOF {
		return fail("eof-wrapped", "wrapError(io.EOF) is not io.EOF")
	}
	if mqtt.VerifWrapError(nil, "x") != nil {
		return fail("nil-wrapped", "wrapError(nil) is not nil")
	}
	if e := mqtt.VerifWrapErrorWithRetry(io.EOF, func(context.Context, *mqtt.BaseClient) error { return nil }, "x"); e != io.EOF {
		return fail("eof-wrapped", "wrapErrorWithRetry(io.EOF) = %v", e)
	}
	rt := mqtt.VerifRequestTimeoutError(context.DeadlineExceeded)
	var rte *mqtt.RequestTimeoutError
	if !errors.As(mqtt.VerifWrapError(rt, "x"), &rte) || !errors.As(fmt.Errorf("a: %w", mqtt.VerifWrapErrorWithRetry(rt, nil, "y")), &rte) {
		return fail("timeout-not-identifiable", "wrapped RequestTimeoutError not found by errors.As")
	}
	seen := map[string]bool{}
	r.Evals = p.N
	for i := 0; i < p.N; i++ {
		retryCalled := 0
		root, desc := buildChain(rng, &retryCalled)
		chain := refChain(root)
		// targets: all sentinels, every node of the chain, one fresh error
		check := func(target error, tname string) *fw.Result {
			want := inChain(chain, target)
			got := errors.Is(root, target)
			if want {
				r.Counters["is_true"]++
			} else {
				r.Counters["is_false"]++
			}
			if got != want {
				rr := fail("errors-is", "chain %s: errors.Is(chain, %s) = %v, reference chain membership = %v", desc, tname, got, want)
				return &rr
			}
			return nil
		}
		for _, s := range c19Sentinels {
			if rr := check(s.err, s.name); rr != nil {
				return *rr
			}
		}
		for k, n := range chain {
			if rr := check(n, fmt.Sprintf("node#%d", k)); rr != nil {
				return *rr
			}
		}
		if rr := check(errors.New("other"), "fresh-unrelated"); rr != nil {
			return *rr
		}
		// the retry handle survives and is callable where the outermost node carries one
		if rh, ok := root.(mqtt.ErrorWithRetry); ok {
			before := retryCalled
			if err := rh.Retry(context.Background(), nil); err != nil || retryCalled != before+1 {
				return fail("retry-handle-lost", "chain %s: Retry did not invoke the closure it was built with", desc)
			}
			r.Counters["retry_handles_invoked"]++
		}
		// errors.As finds ConnectionError wherever stdlib unwrapping reaches it
		r.Counters["chains_checked"]++
		if !seen[desc] && len(seen) < 20000 {
			// distinct chain shapes (bounded per case so that the journal stays small)
			seen[desc] = true
			r.NT = append(r.NT, "c:"+desc)
		}
		if i == 0 {
			r.Sample = map[string]interface{}{"mode": "chains", "chain": desc, "targets": len(c19Sentinels) + len(chain) + 1}
		}
	}
	return r
}

func init() {
	fw.Register(&fw.Prop{
		ID:    "C19",
		Level: "exploration",
		Rule: "seeded random error chains (depth 0-8) built from all exported sentinels, io/context errors and fresh errors with wrapError, &Error{}, wrapErrorWithRetry, ConnectionError, fmt %w and a legacy Err-field type; for every chain, errors.Is against every sentinel, " +
			"every chain node and an unrelated error must equal membership computed by an independent chain walker; retry closures must stay callable; io.EOF/nil pass through; RequestTimeoutError found by errors.As. " +
			"API part: every request kind (publish q1, q2 both phases, subscribe, unsubscribe) interrupted at every step by every cause on a BaseClient; the returned error must expose the injected cause and an ErrorWithRetry whose Retry on a fresh client re-issues the same request (decoded on the wire); retry-client runs with ResponseTimeout and acknowledgements dropped on first transmissions and on retransmissions: every OnError value that stems from an expired deadline must be a RequestTimeoutError (errors.As). " +
			"Non-trivial: distinct chain shapes, distinct (kind,step,cause) API cases.",
		Assumptions: []string{"error values that are pointers to non-struct types or typed nil pointers are not generated (none occur in the library or standard transports)",
			"a Transport whose Write fails with bare io.EOF is outside the domain (wrapError passes io.EOF through by design, which drops the retry handle)"},
		Gen: c19Gen,
		Run: c19Run,
	})
}
