// Package scen holds the peers (scripted peer, broker model), the scenario
// runner and helpers shared by the property checks.
package scen

import (
	"context"
	"errors"
	"fmt"
	"time"

	mqtt "github.com/at-wat/mqtt-go"
	"verif/memnet"
	"verif/mqttref"
)

// InPkt is a client->broker packet seen by a scripted peer.
type InPkt struct {
	Conn int
	Seq  int // seq of the write event
	P    *mqttref.Packet
	Raw  []byte
}

// Script is a scripted (manual mode) peer: it records what the client sends
// and answers only what the script tells it to.
type Script struct {
	Tr             *memnet.Trace
	AutoConnack    bool
	SessionPresent bool
	ConnackCode    byte
	AutoPing       bool
	AutoAck        bool // answer PUBLISH/PUBREL/SUBSCRIBE/UNSUBSCRIBE like a conforming broker
	// OnPkt is called under Tr.Mu for every packet after the automatic handling.
	OnPkt func(c *memnet.Conn, p *mqttref.Packet, raw []byte) (failWrite bool)
	In    []InPkt
}

// OnPacket implements memnet.Peer.
func (s *Script) OnPacket(c *memnet.Conn, raw []byte, p *mqttref.Packet, perr error) bool {
	s.In = append(s.In, InPkt{Conn: c.ID, Seq: len(s.Tr.Events) - 1, P: p, Raw: raw})
	if p != nil {
		switch p.Type {
		case mqttref.CONNECT:
			if s.AutoConnack {
				c.SendLocked(mqttref.EncConnAck(s.SessionPresent, s.ConnackCode), "")
			}
		case mqttref.PINGREQ:
			if s.AutoPing {
				c.SendLocked(mqttref.EncPingResp(), "")
			}
		case mqttref.DISCONNECT:
			c.PeerCloseLocked("DISCONNECT received")
		}
		if s.AutoAck {
			switch p.Type {
			case mqttref.PUBLISH:
				if p.QoS == 1 {
					c.SendLocked(mqttref.EncAck(mqttref.PUBACK, p.ID), "")
				} else if p.QoS == 2 {
					c.SendLocked(mqttref.EncAck(mqttref.PUBREC, p.ID), "")
				}
			case mqttref.PUBREL:
				c.SendLocked(mqttref.EncAck(mqttref.PUBCOMP, p.ID), "")
			case mqttref.SUBSCRIBE:
				codes := make([]byte, len(p.Subs))
				for i, sb := range p.Subs {
					codes[i] = sb.QoS
				}
				c.SendLocked(mqttref.EncSubAck(p.ID, codes), "")
			case mqttref.UNSUBSCRIBE:
				c.SendLocked(mqttref.EncAck(mqttref.UNSUBACK, p.ID), "")
			}
		}
	}
	if s.OnPkt != nil {
		return s.OnPkt(c, p, raw)
	}
	return false
}

// OnClientClose implements memnet.Peer.
func (s *Script) OnClientClose(c *memnet.Conn) {}

// InCount returns the number of client packets of type t seen so far (-1: all).
func (s *Script) InCount(t int) int {
	s.Tr.Mu.Lock()
	defer s.Tr.Mu.Unlock()
	return s.inCountLocked(t)
}

func (s *Script) inCountLocked(t int) int {
	n := 0
	for _, p := range s.In {
		if t < 0 || (p.P != nil && p.P.Type == t) {
			n++
		}
	}
	return n
}

// WaitIn waits until n packets matching pred have been received; it returns them.
func (s *Script) WaitIn(d time.Duration, n int, pred func(p *mqttref.Packet) bool) ([]InPkt, bool) {
	var out []InPkt
	ok := s.Tr.WaitFor(d, func() bool {
		out = out[:0]
		for _, p := range s.In {
			if p.P != nil && pred(p.P) {
				out = append(out, p)
			}
		}
		return len(out) >= n
	})
	return out, ok
}

// Watchdog is the generous wall-clock guard used around blocking harness
// steps. Its expiry is never a verdict by itself.
var Watchdog = 10 * time.Second

// StateCB returns a ConnState callback that logs into the trace.
func StateCB(tr *memnet.Trace, conn int, extra func(mqtt.ConnState, error)) func(mqtt.ConnState, error) {
	return func(s mqtt.ConnState, err error) {
		e := memnet.Event{Kind: memnet.KState, Conn: conn, S: s.String()}
		if err != nil {
			e.Err = err.Error()
		}
		seq := tr.Add(e)
		if extra != nil {
			extra(s, err)
		}
		// the return of the callback: two callbacks are only ordered if one began after the other returned
		tr.Add(memnet.Event{Kind: memnet.KStateRet, Conn: conn, S: s.String(), Ref: seq})
	}
}

// NewBase creates a BaseClient on a fresh memnet connection to peer.
func NewBase(tr *memnet.Trace, peer memnet.Peer) (*mqtt.BaseClient, *memnet.Conn) {
	conn := tr.NewConn(peer)
	cli := &mqtt.BaseClient{Transport: conn}
	// like an application's callback, ours looks at the client it is told about
	cli.ConnState = StateCB(tr, conn.ID, func(mqtt.ConnState, error) {
		_ = cli.Err()
		_ = cli.Done()
	})
	return cli, conn
}

// ErrConnectHung is returned by ConnectBase when Connect has not returned although its context expired long ago.
var ErrConnectHung = errors.New("scen: Connect did not return although its context had expired a watchdog ago")

// ConnectBase connects cli and fails loudly if that does not work (harness precondition).
func ConnectBase(cli *mqtt.BaseClient, opts ...mqtt.ConnectOption) error {
	ctx, cancel := context.WithTimeout(context.Background(), Watchdog)
	defer cancel()
	res := make(chan error, 1)
	go func() {
		_, err := cli.Connect(ctx, "verif", opts...)
		res <- err
	}()
	select {
	case err := <-res:
		return err
	case <-time.After(2 * Watchdog):
		return ErrConnectHung
	}
}

// Barrier sends a Ping that the scripted peer answers (AutoPing must be on).
// serve is sequential, so when it returns every packet sent to the client
// earlier has been fully processed, including the acknowledgements serve writes.
func Barrier(cli *mqtt.BaseClient) error {
	ctx, cancel := context.WithTimeout(context.Background(), Watchdog)
	defer cancel()
	return cli.Ping(ctx)
}

// ErrStr renders an error or "".
func ErrStr(err error) string {
	if err == nil {
		return ""
	}
	return err.Error()
}

// Tagf formats.
func Tagf(f string, a ...interface{}) string { return fmt.Sprintf(f, a...) }

// CertifyStuck reports whether the connection made no progress at all between
// two samples taken a generous interval apart: no new trace event and no byte
// consumed. It is used to turn a fired watchdog into a verdict only when the
// system is demonstrably quiescent (otherwise the result is inconclusive).
func CertifyStuck(tr *memnet.Trace, conn *memnet.Conn) bool {
	sample := func() (int, int64, int) {
		tr.Mu.Lock()
		defer tr.Mu.Unlock()
		return len(tr.Events), conn.Consumed, conn.Writes
	}
	e1, c1, w1 := sample()
	time.Sleep(500 * time.Millisecond)
	e2, c2, w2 := sample()
	return e1 == e2 && c1 == c2 && w1 == w2
}

// IsDeadline reports whether err is (wraps) a context deadline.
func IsDeadline(err error) bool {
	return err != nil && errors.Is(err, context.DeadlineExceeded)
}

// AckFor returns the acknowledgement a conforming broker sends for p (nil if none).
func AckFor(p *mqttref.Packet) []byte {
	switch p.Type {
	case mqttref.PUBLISH:
		if p.QoS == 1 {
			return mqttref.EncAck(mqttref.PUBACK, p.ID)
		} else if p.QoS == 2 {
			return mqttref.EncAck(mqttref.PUBREC, p.ID)
		}
	case mqttref.PUBREL:
		return mqttref.EncAck(mqttref.PUBCOMP, p.ID)
	case mqttref.SUBSCRIBE:
		codes := make([]byte, len(p.Subs))
		for i, sb := range p.Subs {
			codes[i] = sb.QoS
		}
		return mqttref.EncSubAck(p.ID, codes)
	case mqttref.UNSUBSCRIBE:
		return mqttref.EncAck(mqttref.UNSUBACK, p.ID)
	}
	return nil
}
