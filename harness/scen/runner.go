package scen

import (
	"context"
	"errors"
	"fmt"
	"io"
	"runtime"
	"strings"
	"sync"
	"sync/atomic"
	"time"

	mqtt "github.com/at-wat/mqtt-go"
	"verif/memnet"
	"verif/mqttref"
)

// SubSpec is one subscription of a subscribe step.
type SubSpec struct {
	F string `json:"f"`
	Q byte   `json:"q"`
}

// Step is one action of the (single) submitting goroutine.
type Step struct {
	Op      string    `json:"op"` // pub sub unsub handle down up cut inject wait sleep
	QoS     byte      `json:"qos,omitempty"`
	Tag     string    `json:"tag,omitempty"`
	Retain  bool      `json:"ret,omitempty"`
	Dup     bool      `json:"dup,omitempty"` // caller leaves Dup=true in the Message
	ID      uint16    `json:"id,omitempty"`  // caller-set identifier
	Subs    []SubSpec `json:"subs,omitempty"`
	Filters []string  `json:"filters,omitempty"`
	Wait    bool      `json:"wait,omitempty"` // wait until this request's acknowledgement was consumed
	In      *InMsg    `json:"in,omitempty"`   // inject: broker->client message
	Ms      int       `json:"ms,omitempty"`   // sleep
	H       int       `json:"h,omitempty"`    // handle: handler number (0 = nil handler)
}

func (s Step) String() string {
	switch s.Op {
	case "pub":
		x := fmt.Sprintf("pub(q%d %s", s.QoS, s.Tag)
		if s.ID != 0 {
			x += fmt.Sprintf(" id=%d", s.ID)
		}
		if s.Wait {
			x += " wait"
		}
		return x + ")"
	case "sub":
		return fmt.Sprintf("sub(%v)", s.Subs)
	case "unsub":
		return fmt.Sprintf("unsub(%v)", s.Filters)
	case "handle":
		return fmt.Sprintf("handle(h%d)", s.H)
	case "inject":
		return fmt.Sprintf("inject(%s q%d)", s.In.Tag, s.In.QoS)
	}
	return s.Op
}

// Key identifies the request of a step on the wire.
func (s Step) Key() string {
	switch s.Op {
	case "pub":
		return "P:" + s.Tag
	case "sub":
		var p []string
		for _, x := range s.Subs {
			p = append(p, fmt.Sprintf("%s@%d", x.F, x.Q))
		}
		return "S:" + strings.Join(p, ",")
	case "unsub":
		return "U:" + strings.Join(s.Filters, ",")
	}
	return ""
}

// PktKey returns the request key of a client packet ("" if it is not a request).
func PktKey(p *mqttref.Packet) string {
	if p == nil {
		return ""
	}
	switch p.Type {
	case mqttref.PUBLISH:
		return "P:" + string(p.Payload)
	case mqttref.SUBSCRIBE:
		var s []string
		for _, x := range p.Subs {
			s = append(s, fmt.Sprintf("%s@%d", x.Filter, x.QoS))
		}
		return "S:" + strings.Join(s, ",")
	case mqttref.UNSUBSCRIBE:
		return "U:" + strings.Join(p.Filters, ",")
	}
	return ""
}

// Scenario describes one execution.
type Scenario struct {
	Client               string    `json:"client"` // reconnect | retry
	Cfg                  BrokerCfg `json:"cfg"`
	AlwaysResub          bool      `json:"always_resub,omitempty"`
	Clean                bool      `json:"clean,omitempty"` // CONNECT with clean session
	Chunk                int       `json:"chunk,omitempty"`
	LateWriteOK          bool      `json:"late_write_ok,omitempty"`
	SlowReturn           int       `json:"slow_return,omitempty"`            // transport Write returns late (see memnet.Conn.SlowReturn)
	CloseStyle           string    `json:"close_style,omitempty"`            // error after a local Close: "" memnet's own, "pipe" io.ErrClosedPipe (net.Pipe), "net" *net.OpError{net.ErrClosed} (TCP)
	CloseLinger          int       `json:"close_linger,omitempty"`           // transport Close returns late (see memnet.Conn.CloseLinger)
	PingDelayMs          int       `json:"ping_delay_ms,omitempty"`          // the broker answers PINGREQ this much later
	DialerPresetsHandler bool      `json:"dialer_presets_handler,omitempty"` // BaseClients come out of the Dialer with a handler already set
	OnErrorPublishes     bool      `json:"onerror_publishes,omitempty"`      // the OnError callback publishes a status message through the client
	Pre                  []Step    `json:"pre,omitempty"`                    // submitted before Connect
	Steps                []Step    `json:"steps,omitempty"`                  // submitted after Connect returned
	Faults               []Fault   `json:"faults,omitempty"`
	DialFail             []int     `json:"dial_fail,omitempty"` // 1-based dial attempts that fail
	OnConnect            [][]InMsg `json:"on_connect,omitempty"`
	WaitBaseMs           int       `json:"wait_base_ms,omitempty"`
	WaitMaxMs            int       `json:"wait_max_ms,omitempty"`
	TimeoutMs            int       `json:"timeout_ms,omitempty"`      // connect/ping timeout of the reconnect client (0: 2 s; <0: library default)
	RespMs               int       `json:"resp_timeout_ms,omitempty"` // RetryClient.ResponseTimeout
	PingMs               int       `json:"ping_ms,omitempty"`
	SlowActive           bool      `json:"slow_active,omitempty"` // the ConnState(Active) callback yields for a while (steering)
	NoSentinel           bool      `json:"no_sentinel,omitempty"`
	KeepOpen             bool      `json:"keep_open,omitempty"`    // do not disconnect at the end: the caller samples and calls Finish
	RichConnect          bool      `json:"rich_connect,omitempty"` // CONNECT with will, credentials and keep-alive (must be identical on every connection)
	// Steer: park the reconnect goroutine inside the ConnectOption (between SetClient
	// and BaseClient.Connect's initialisation) of connection N and run these steps meanwhile.
	SteerConn  int    `json:"steer_conn,omitempty"`
	SteerSteps []Step `json:"steer_steps,omitempty"`
	SteerAt    string `json:"steer_at,omitempty"` // "connopt" | "dialer"
	// SteerNoGrace: the Dialer returns right after the steered submissions (SetClient races
	// with the task goroutine's wake-up) and the ConnectOption of that connection is slow.
	SteerNoGrace bool `json:"steer_nograce,omitempty"`
}

// Submission records what happened to one step.
type Submission struct {
	Idx      int
	Step     Step
	Err      error
	CallSeq  int
	RetSeq   int
	Accepted bool
}

// Run is the result of executing a scenario.
type Run struct {
	Sc         *Scenario
	Tr         *memnet.Trace
	Br         *Broker
	Subm       []*Submission
	Quiescent  bool   // sentinel acknowledged, queues empty
	Livelock   bool   // LivelockConns healthy connections after stabilisation without the sentinel being acknowledged
	DeafOpen   []int  // connections that stopped answering PINGREQ (keep-alive enabled) and were still open half a watchdog later
	Stuck      bool   // watchdog fired and the system was certified quiescent (no progress possible)
	Inconcl    string // non-empty: why no verdict can be given
	EndSeq     int    // events after this seq belong to tear-down
	FinalSubs  map[string]byte
	Dials      int
	DialFails  int
	Handled    []Handled
	ConnectErr error
	RC         *mqtt.RetryClient
	StatsEnd   mqtt.RetryStats
	HungCall   string // an API call that is not supposed to block did not return within 3 watchdogs
	hung       int32
	submMu     sync.Mutex
	GoDump     string
	Clients    map[int]*mqtt.BaseClient // by connection id
	Cli        mqtt.Client
	finishCtx  context.Context
	cancelAll  context.CancelFunc
}

// Finish disconnects the client (tear-down); used with Scenario.KeepOpen.
func (r *Run) Finish() {
	if r.Cli != nil {
		r.finish(r.Cli, r.finishCtx)
	}
	if r.cancelAll != nil {
		r.cancelAll()
	}
}

// Handled is one handler invocation.
type Handled struct {
	H       int
	Topic   string
	Payload string
	QoS     byte
	Seq     int
}

// LivelockConns is the number of healthy connections after stabilisation within which the
// closing sentinel must have been acknowledged.
const LivelockConns = 25

func healthyConnsAfterStabilise(ev []memnet.Event) int {
	n := 0
	after := false
	acc := map[int]bool{}
	for _, e := range ev {
		if e.Kind == memnet.KNote && strings.HasPrefix(e.S, "stabilised") {
			after = true
		}
		if !after {
			continue
		}
		if e.Kind == memnet.KSend && e.Pkt != nil && e.Pkt.Type == mqttref.CONNACK && e.Pkt.Code == 0 {
			acc[e.Seq] = true
		}
		if e.Kind == memnet.KConsumed && acc[e.Ref] {
			n++
		}
	}
	return n
}

// Sentinel is the tag of the closing QoS 1 publish.
const Sentinel = "~sentinel"

// Sentinel2 is the tag of the second closing publish (see Exec).
const Sentinel2 = "~sentinel2"

// Sentinel3 is submitted after a connection that stopped answering PINGREQ was given up (deafconn).
const Sentinel3 = "~sentinel3"

// Dialer is the harness mqtt.Dialer: it consults the dial plan, records events and hands out
// BaseClients on fresh in-memory connections.
type Dialer struct {
	r       *Run
	fail    map[int]bool
	mu      sync.Mutex
	failAll bool
	okDials int
	n       int
	onDial  func(n int, cli *mqtt.BaseClient, conn *memnet.Conn)
	// onActive is called inside the ConnState(Active) callback of connection k (1-based ordinal of accepted dials).
	onActive func(k int)
	// OnActive is called inside the ConnState(Active) callback (for hand-written scenarios).
	OnActive func(k int)
	// Before is called at the start of every DialContext (after dial.start was recorded).
	Before func(n int)
}

// NewDialer creates a Dialer for a hand-written scenario.
func NewDialer(tr *memnet.Trace, br *Broker, sc *Scenario, failing []int) (*Dialer, *Run) {
	r := &Run{Sc: sc, Tr: tr, Br: br}
	d := &Dialer{r: r, fail: map[int]bool{}}
	for _, n := range failing {
		d.fail[n] = true
	}
	return d, r
}

// FailAll makes every dial fail while on is true.
func (d *Dialer) FailAll(on bool) {
	d.mu.Lock()
	d.failAll = on
	d.mu.Unlock()
}

func (d *Dialer) DialContext(ctx context.Context) (*mqtt.BaseClient, error) {
	r := d.r
	tr := r.Tr
	d.mu.Lock()
	d.n++
	n := d.n
	failAll := d.failAll
	d.mu.Unlock()
	tr.Mu.Lock()
	open := 0
	for _, c := range tr.Conns {
		if !c.LocalClosed {
			open++
		}
	}
	tr.AddLocked(memnet.Event{Kind: memnet.KDialStart, N: n, Ref: open})
	down := r.Br.Down
	r.Dials++
	tr.Mu.Unlock()
	if d.Before != nil {
		d.Before(n)
	}
	if d.fail[n] || down || failAll {
		tr.Mu.Lock()
		r.DialFails++
		tr.AddLocked(memnet.Event{Kind: memnet.KDialEnd, N: n, Err: "dial refused"})
		tr.Mu.Unlock()
		return nil, errors.New("memnet: dial refused")
	}
	conn := tr.NewConn(r.Br)
	conn.Chunk = r.Sc.Chunk
	conn.LateWriteOK = r.Sc.LateWriteOK
	conn.SlowReturn = r.Sc.SlowReturn
	conn.CloseLinger = r.Sc.CloseLinger
	switch r.Sc.CloseStyle {
	case "pipe":
		conn.ClosedErr = io.ErrClosedPipe
	case "net":
		conn.ClosedErr = memnet.NetClosedErr
	}
	cli := &mqtt.BaseClient{Transport: conn}
	if r.Sc.DialerPresetsHandler {
		// a Dialer that hands out clients which already carry a handler of their own (a default / logging handler):
		// what is registered on the retrying client takes precedence on every connection
		cid := conn.ID
		cli.Handle(mqtt.HandlerFunc(func(m *mqtt.Message) {
			tr.Add(memnet.Event{Kind: memnet.KNote, Conn: cid, S: "dialer's preset handler got " + m.Topic + " " + string(m.Payload)})
		}))
	}
	tr.Mu.Lock()
	if r.Clients == nil {
		r.Clients = map[int]*mqtt.BaseClient{}
	}
	r.Clients[conn.ID] = cli
	tr.Mu.Unlock()
	d.mu.Lock()
	d.okDials++
	ordinal := d.okDials
	d.mu.Unlock()
	cli.ConnState = StateCB(tr, conn.ID, func(s mqtt.ConnState, err error) {
		if s == mqtt.StateActive && d.onActive != nil {
			d.onActive(ordinal)
		}
		if s == mqtt.StateActive && d.OnActive != nil {
			d.OnActive(ordinal)
		}
		if s == mqtt.StateActive && r.Sc.SlowActive {
			for i := 0; i < 50; i++ {
				runtime.Gosched()
			}
			time.Sleep(300 * time.Microsecond)
		}
	})
	tr.Add(memnet.Event{Kind: memnet.KDialEnd, N: n, Conn: conn.ID, OK: true})
	if d.onDial != nil {
		d.onDial(n, cli, conn)
	}
	return cli, nil
}

// Exec runs the scenario against the real library.
func Exec(sc *Scenario) *Run {
	tr := memnet.NewTrace()
	br := NewBroker(tr, sc.Cfg, sc.Faults)
	br.PingDelay = time.Duration(sc.PingDelayMs) * time.Millisecond
	br.OnConnect = sc.OnConnect
	r := &Run{Sc: sc, Tr: tr, Br: br}
	d := &Dialer{r: r, fail: map[int]bool{}}
	for _, n := range sc.DialFail {
		d.fail[n] = true
	}
	base, max := sc.WaitBaseMs, sc.WaitMaxMs
	if base == 0 {
		base = 1
	}
	if max == 0 {
		max = 4
	}
	to := sc.TimeoutMs
	if to <= 0 {
		to = 2000
	}
	retry := &mqtt.RetryClient{}
	if sc.RespMs > 0 {
		retry.ResponseTimeout = time.Duration(sc.RespMs) * time.Millisecond
	}
	var onErrorHook func()
	var submitFromHandler func(n int, st Step)
	nErrReports := 0
	retry.OnError = func(err error) {
		if onErrorHook != nil {
			defer onErrorHook()
		}
		e := memnet.Event{Kind: memnet.KOnError, Err: ErrStr(err)}
		var rte *mqtt.RequestTimeoutError
		if errors.As(err, &rte) {
			e.S = "RequestTimeoutError"
		}
		tr.Add(e)
		if sc.OnErrorPublishes && nErrReports < 6 && submitFromHandler != nil {
			// an application that reports errors over MQTT: the callback publishes through the client it belongs to
			nErrReports++
			submitFromHandler(2000+nErrReports, Step{Op: "pub", QoS: 1, Tag: fmt.Sprintf("err-%d", nErrReports)})
		}
	}
	r.RC = retry
	var handlerOf func(h int) mqtt.Handler
	var cli mqtt.Client
	handler := func(h int) mqtt.Handler {
		if h == 0 {
			return nil
		}
		return mqtt.HandlerFunc(func(m *mqtt.Message) {
			seq := tr.Add(memnet.Event{Kind: memnet.KHEnter, S: m.Topic, S2: string(m.Payload), N: h})
			tr.Mu.Lock()
			r.Handled = append(r.Handled, Handled{H: h, Topic: m.Topic, Payload: string(m.Payload), QoS: byte(m.QoS), Seq: seq})
			nh := len(r.Handled)
			tr.Mu.Unlock()
			if h >= 80 && h < 89 {
				// a one-shot handler: it installs its successor from inside the callback (reader goroutine)
				cs := tr.Call("Handle", fmt.Sprint(h+1))
				cli.Handle(handlerOf(h + 1))
				tr.Ret(cs, "Handle", fmt.Sprint(h+1), nil)
			}
			if h >= 90 && h < 100 && !strings.HasPrefix(m.Topic, "t/re-") {
				// a responding handler: it publishes (QoS 1 or 2) through the retrying client from inside the
				// reader goroutine; the response is an accepted request like any other
				submitFromHandler(nh, Step{Op: "pub", QoS: byte(1 + nh%2), Tag: fmt.Sprintf("re-%d", nh)})
			}
		})
	}

	handlerOf = handler
	ctx, cancel := context.WithCancel(context.Background())
	if sc.KeepOpen {
		r.finishCtx, r.cancelAll = ctx, cancel
	} else {
		defer cancel()
	}
	var connOpts []mqtt.ConnectOption
	connOpts = append(connOpts, mqtt.WithCleanSession(sc.Clean))
	if sc.RichConnect {
		connOpts = append(connOpts, mqtt.WithWill(&mqtt.Message{Topic: "will/verif", Payload: []byte("gone"), QoS: mqtt.QoS1, Retain: true}),
			mqtt.WithUserNamePassword("user-é", "secret"), mqtt.WithKeepAlive(3600))
	}

	var stormStop chan struct{}
	var stormWG sync.WaitGroup
	// guard runs an API call that is not supposed to block for long; if it has not returned after three
	// watchdogs the run is wound up (certified stuck or inconclusive) instead of hanging the worker
	guard := func(name string, fn func()) bool {
		if atomic.LoadInt32(&r.hung) != 0 {
			return false
		}
		done := make(chan struct{})
		go func() { defer close(done); fn() }()
		select {
		case <-done:
			return true
		case <-time.After(3 * Watchdog):
			tr.Note("API call %s has not returned for %v", name, 3*Watchdog)
			if atomic.CompareAndSwapInt32(&r.hung, 0, 1) {
				r.HungCall = name
			}
			return false
		}
	}
	submit := func(idx int, st Step) *Submission {
		sb := &Submission{Idx: idx, Step: st}
		if atomic.LoadInt32(&r.hung) != 0 {
			return sb
		}
		switch st.Op {
		case "pub":
			sb.CallSeq = tr.Call("Publish", st.Tag)
			m := &mqtt.Message{Topic: "t/" + st.Tag, Payload: []byte(st.Tag), QoS: mqtt.QoS(st.QoS), Retain: st.Retain, Dup: st.Dup, ID: st.ID}
			var err error
			if !guard("Publish "+st.Tag, func() { err = cli.Publish(ctx, m) }) {
				return sb
			}
			sb.Err = err
			sb.RetSeq = tr.Ret(sb.CallSeq, "Publish", st.Tag, sb.Err)
		case "sub":
			sb.CallSeq = tr.Call("Subscribe", st.Key())
			var subs []mqtt.Subscription
			for _, s := range st.Subs {
				subs = append(subs, mqtt.Subscription{Topic: s.F, QoS: mqtt.QoS(s.Q)})
			}
			var err error
			if !guard("Subscribe "+st.Key(), func() { _, err = cli.Subscribe(ctx, subs...) }) {
				return sb
			}
			sb.Err = err
			sb.RetSeq = tr.Ret(sb.CallSeq, "Subscribe", st.Key(), sb.Err)
		case "unsub":
			sb.CallSeq = tr.Call("Unsubscribe", st.Key())
			var err error
			if !guard("Unsubscribe "+st.Key(), func() { err = cli.Unsubscribe(ctx, st.Filters...) }) {
				return sb
			}
			sb.Err = err
			sb.RetSeq = tr.Ret(sb.CallSeq, "Unsubscribe", st.Key(), sb.Err)
		case "handle":
			sb.CallSeq = tr.Call("Handle", fmt.Sprint(st.H))
			if !guard("Handle "+fmt.Sprint(st.H), func() { cli.Handle(handler(st.H)) }) {
				return sb
			}
			sb.RetSeq = tr.Ret(sb.CallSeq, "Handle", fmt.Sprint(st.H), nil)
		case "down":
			tr.Mu.Lock()
			br.Down = true
			tr.AddLocked(memnet.Event{Kind: memnet.KNote, S: "broker down"})
			br.CutNowLocked("broker down")
			tr.Mu.Unlock()
		case "up":
			tr.Mu.Lock()
			br.Down = false
			tr.AddLocked(memnet.Event{Kind: memnet.KNote, S: "broker up"})
			tr.Mu.Unlock()
		case "cut":
			tr.Mu.Lock()
			br.CutNowLocked("idle cut")
			tr.Mu.Unlock()
		case "inject":
			// wait (bounded) for an accepted connection, then push
			tr.WaitFor(Watchdog, func() bool { return br.PushLocked(*st.In) })
		case "release":
			tr.Mu.Lock()
			br.ReleaseLocked()
			tr.Mu.Unlock()
		case "hstorm":
			// a goroutine keeps replacing the handler (increasing numbers) while others keep the stats
			// lock read-held: any window in which a stale handler could be installed is widened
			stormStop = make(chan struct{})
			stormWG.Add(1)
			go func(stop chan struct{}) {
				defer stormWG.Done()
				for k := 100; ; k++ {
					select {
					case <-stop:
						return
					default:
					}
					cs := tr.Call("Handle", fmt.Sprint(k))
					cli.Handle(handler(k))
					tr.Ret(cs, "Handle", fmt.Sprint(k), nil)
					time.Sleep(time.Duration(20+k%7*15) * time.Microsecond)
				}
			}(stormStop)
			for g := 0; g < 4; g++ {
				stormWG.Add(1)
				go func(stop chan struct{}) {
					defer stormWG.Done()
					for {
						select {
						case <-stop:
							return
						default:
						}
						_ = retry.Stats()
					}
				}(stormStop)
			}
		case "hstop":
			if stormStop != nil {
				close(stormStop)
				stormWG.Wait()
				stormStop = nil
			}
		case "garbage":
			// the broker sends a malformed packet (protocol error seen by the client)
			tr.Mu.Lock()
			if br.Cur != nil {
				br.Cur.SendLocked([]byte{0xF0, 0x00}, "garbage")
			}
			tr.Mu.Unlock()
		case "silentping":
			tr.Mu.Lock()
			br.SilentPingOnly = true
			tr.AddLocked(memnet.Event{Kind: memnet.KNote, S: "broker stops answering PINGREQ"})
			tr.Mu.Unlock()
		case "deafconn":
			// the current connection never gets a PINGRESP again (it still answers everything else, and
			// stabilisation does not heal it): only the keep-alive can find out
			tr.Mu.Lock()
			if br.Cur != nil && br.Cur.OpenLocked() {
				if br.Deaf == nil {
					br.Deaf = map[int]bool{}
				}
				br.Deaf[br.Cur.ID] = true
				tr.AddLocked(memnet.Event{Kind: memnet.KNote, Conn: br.Cur.ID, S: "connection never answers PINGREQ again"})
			}
			tr.Mu.Unlock()
		case "switch":
			// make-before-break (hand-written loops only): a new client is dialled and installed with SetClient
			// while the current connection is still open
			if rl, ok := cli.(*retryLoop); ok {
				n0 := atomic.LoadInt32(&rl.switches)
				select {
				case rl.switchReq <- struct{}{}:
				default:
				}
				tr.WaitFor(Watchdog/4, func() bool { return atomic.LoadInt32(&rl.switches) > n0 })
			}
		case "stallinject":
			// the broker stops reading from the current connection (writes to it block from now on) and sends one more
			// QoS 1 message: the reader goroutine gets stuck writing its PUBACK. Waits until the request submitted just
			// before has been written, so that it is the acknowledgement that is awaited, not the write.
			tr.WaitFor(Watchdog/20, func() bool {
				last := ""
				for _, s := range r.SubmSnapshot() {
					if s.Step.Op == "pub" && s.Step.QoS > 0 {
						last = s.Step.Key()
					}
				}
				if last == "" {
					return true
				}
				for i := len(tr.Events) - 1; i >= 0; i-- {
					e := tr.Events[i]
					if e.Kind == memnet.KWrite && e.OK && PktKey(e.Pkt) == last {
						return true
					}
				}
				return false
			})
			tr.Mu.Lock()
			if br.Cur != nil && br.Cur.OpenLocked() {
				br.Cur.Stalled = true
				tr.AddLocked(memnet.Event{Kind: memnet.KNote, Conn: br.Cur.ID, S: "broker stops reading from this connection"})
				br.PushLocked(InMsg{Tag: "stall", QoS: 1})
			}
			tr.Mu.Unlock()
		case "extrapingresp":
			// a PINGRESP nobody asked for (a duplicate, or the late answer to a ping given up long ago)
			tr.Mu.Lock()
			if br.Cur != nil && br.Cur.OpenLocked() {
				br.Cur.SendLocked(mqttref.EncPingResp(), "unsolicited PINGRESP")
			}
			tr.Mu.Unlock()
		case "pingok":
			tr.Mu.Lock()
			br.SilentPingOnly = false
			tr.AddLocked(memnet.Event{Kind: memnet.KNote, S: "broker answers PINGREQ again"})
			tr.Mu.Unlock()
		case "sleep":
			time.Sleep(time.Duration(st.Ms) * time.Millisecond)
		case "wait":
		}
		sb.Accepted = sb.Err == nil && (st.Op == "pub" || st.Op == "sub" || st.Op == "unsub")
		r.submMu.Lock()
		r.Subm = append(r.Subm, sb)
		r.submMu.Unlock()
		if st.Wait && sb.Accepted && !(st.Op == "pub" && st.QoS == 0) {
			tr.WaitFor(Watchdog, func() bool { return AckConsumedLocked(tr, st.Key()) })
		}
		return sb
	}

	submitFromHandler = func(n int, st Step) { submit(3000+n, st) }

	// steering: run SteerSteps while the reconnect goroutine is parked
	steerDone := false
	steerFinished := make(chan struct{})
	steer := func(where string, connNo int) {
		if sc.SteerAt != where || sc.SteerConn != connNo || steerDone {
			return
		}
		steerDone = true
		defer close(steerFinished)
		tr.Note("steer: %s of connection %d parked; submitting %d steps", where, connNo, len(sc.SteerSteps))
		done := make(chan struct{})
		go func() {
			defer close(done)
			for i, st := range sc.SteerSteps {
				submit(1000+i, st)
			}
		}()
		select {
		case <-done:
		case <-time.After(Watchdog):
		}
		if where == "dialer" && sc.SteerNoGrace {
			// return at once: SetClient follows immediately, racing with the task wake-up
			tr.Note("steer: released without grace")
			return
		}
		// give the task goroutine the chance to pick the work up while we are still parked
		for i := 0; i < 20; i++ {
			runtime.Gosched()
		}
		time.Sleep(500 * time.Microsecond)
		tr.Note("steer: released")
	}
	// steering from inside user callbacks: ConnState(Active) of connection SteerConn, or the SteerConn-th OnError call
	d.onActive = func(k int) { steer("active", k) }
	nOnError := 0
	onErrorHook = func() {
		nOnError++ // OnError is only called from the task goroutine
		steer("onerror", nOnError)
	}
	nconn := 0
	var nconnMu sync.Mutex
	d.onDial = func(n int, c *mqtt.BaseClient, conn *memnet.Conn) {
		nconnMu.Lock()
		nconn++
		k := nconn
		nconnMu.Unlock()
		steer("dialer", k)
	}
	connOpts = append(connOpts, func(o *mqtt.ConnectOptions) error {
		nconnMu.Lock()
		k := nconn
		nconnMu.Unlock()
		steer("connopt", k)
		if sc.SteerAt == "dialer" && sc.SteerNoGrace && sc.SteerConn == k {
			// a slow ConnectOption: BaseClient.Connect's initialisation is delayed
			for i := 0; i < 10; i++ {
				runtime.Gosched()
			}
			time.Sleep(400 * time.Microsecond)
		}
		return nil
	})

	switch sc.Client {
	case "reconnect", "":
		opts := []mqtt.ReconnectOption{
			mqtt.WithReconnectWait(time.Duration(base)*time.Millisecond, time.Duration(max)*time.Millisecond),
			mqtt.WithRetryClient(retry),
			mqtt.WithAlwaysResubscribe(sc.AlwaysResub),
		}
		if sc.PingMs > 0 {
			opts = append(opts, mqtt.WithPingInterval(time.Duration(sc.PingMs)*time.Millisecond))
		}
		if sc.TimeoutMs >= 0 {
			opts = append(opts, mqtt.WithTimeout(time.Duration(to)*time.Millisecond))
		} // TimeoutMs < 0: the library default (Timeout = PingInterval) applies
		rc, err := mqtt.NewReconnectClient(d, opts...)
		if err != nil {
			r.Inconcl = "NewReconnectClient: " + err.Error()
			return r
		}
		cli = rc
		r.Cli = rc
	case "retry", "retry-retryfirst", "retry-chaotic":
		// RetryClient driven directly through the Retryer contract by a harness-owned loop
		// (Dial, SetClient, Connect, Resubscribe/Retry in either order, wait for Done).
		rl := &retryLoop{RetryClient: retry, d: d, sc: sc, tr: tr, base: base, max: max, to: to, stop: make(chan struct{}), done: make(chan struct{}), first: make(chan error, 1)}
		rl.switchReq = make(chan struct{}, 1)
		nsw := 0
		rl.onSwitched = func() {
			// the broker still considers the previous connection current (no packet on the new one yet): a
			// message that was on its way arrives there
			nsw++
			tr.Mu.Lock()
			old := br.Cur
			from := len(tr.Events)
			ok := br.PushLocked(InMsg{Tag: fmt.Sprintf("sw%d", nsw), QoS: 1})
			tr.Mu.Unlock()
			if !ok {
				return
			}
			tr.WaitFor(Watchdog/10, func() bool {
				if !old.OpenLocked() {
					return true
				}
				for _, e := range tr.Events[from:] {
					if e.Kind == memnet.KWrite && e.Conn == old.ID && e.Pkt != nil && e.Pkt.Type == mqttref.PUBACK {
						return true
					}
				}
				return false
			})
		}
		cli = rl
		r.Cli = rl
	default:
		r.Inconcl = "unknown client kind " + sc.Client
		return r
	}

	// windUp ends a run in which an API call hung: certified stuck (the monitors judge what was accepted before) or
	// inconclusive
	windUp := func() *Run {
		if r.certifyStuck() {
			r.Stuck = true
		} else {
			r.Inconcl = "API call " + r.HungCall + " did not return within the watchdog and the system was still moving"
		}
		r.StatsEnd = safeStats(retry)
		tr.Mu.Lock()
		r.EndSeq = len(tr.Events)
		r.FinalSubs = map[string]byte{}
		for f, q := range br.Subs {
			r.FinalSubs[f] = q
		}
		tr.Mu.Unlock()
		if stormStop != nil {
			close(stormStop)
			stormStop = nil
		}
		r.finish(cli, ctx)
		return r
	}
	for i, st := range sc.Pre {
		submit(i, st)
	}
	if atomic.LoadInt32(&r.hung) != 0 {
		return windUp()
	}
	cctx, ccancel := context.WithTimeout(ctx, 3*Watchdog)
	cs := tr.Call("Connect", "")
	_, err := cli.Connect(cctx, "verif-client", connOpts...)
	tr.Ret(cs, "Connect", "", err)
	ccancel()
	r.ConnectErr = err
	if err != nil {
		if IsDeadline(err) && r.certifyStuck() {
			// Connect itself never returned and nothing can move any more: a certified-stuck run like any other
			// (the monitors judge what was accepted / registered before)
			tr.Note("Connect did not return within the watchdog; system certified stuck")
			r.Stuck = true
			r.StatsEnd = safeStats(retry)
			tr.Mu.Lock()
			r.EndSeq = len(tr.Events)
			r.FinalSubs = map[string]byte{}
			tr.Mu.Unlock()
			r.finish(cli, ctx)
			return r
		}
		r.Inconcl = "first connection not established within the watchdog: " + err.Error()
		r.finish(cli, ctx)
		return r
	}
	for i, st := range sc.Steps {
		submit(len(sc.Pre)+i, st)
		if atomic.LoadInt32(&r.hung) != 0 {
			return windUp()
		}
	}
	if sc.SteerAt != "" {
		// the steered submissions must precede the sentinel
		select {
		case <-steerFinished:
		case <-time.After(Watchdog / 20):
			tr.Note("steer point never reached")
		}
	}
	if stormStop != nil {
		close(stormStop)
		stormWG.Wait()
		stormStop = nil
	}
	// let the planned faults fire: wait until the plan is exhausted or every accepted
	// request has been acknowledged, or (heuristic, not a verdict) nothing moved for a while
	r.waitSettled(retry)
	// stabilise: the broker is reachable and faultless from now on
	tr.Mu.Lock()
	br.Down = false
	br.SilentPingOnly = false
	br.ClearFaults()
	tr.AddLocked(memnet.Event{Kind: memnet.KNote, S: "stabilised: no further faults"})
	tr.Mu.Unlock()
	if !sc.NoSentinel {
		submit(9999, Step{Op: "pub", QoS: 1, Tag: Sentinel})
		if atomic.LoadInt32(&r.hung) != 0 {
			return windUp()
		}
		// Bounded progress instead of a time bound: after stabilisation every connection is healthy,
		// so a correct client needs one (a few) connection(s) to complete what is pending. If
		// LivelockConns accepted connections come and go without the sentinel being acknowledged,
		// the client is live-locked (it keeps reconnecting but never gets the work done).
		livelockConns := LivelockConns
		if sc.RespMs > 0 || sc.PingMs > 0 {
			// short response / ping timeouts can expire spuriously on a loaded machine and end a healthy
			// connection; demand many more fruitless connections before calling it a live-lock
			livelockConns = 4 * LivelockConns
		}
		tr.WaitFor(Watchdog, func() bool {
			return AckConsumedLocked(tr, "P:"+Sentinel) || healthyConnsAfterStabilise(tr.Events) >= livelockConns
		})
		tr.Mu.Lock()
		ok := AckConsumedLocked(tr, "P:"+Sentinel)
		if !ok && healthyConnsAfterStabilise(tr.Events) >= livelockConns {
			r.Livelock = true
		}
		tr.Mu.Unlock()
		if ok {
			// The first sentinel may have been acknowledged from inside a running Retry task that still
			// has re-subscriptions behind it. A second sentinel is a new task: it runs only after that
			// task returned, so its acknowledgement proves the task goroutine has drained everything.
			if rl, isLoop := cli.(*retryLoop); isLoop {
				// the hand-written loop pushes Retry and Resubscribe one after the other; the second
				// sentinel must come after both
				for i := 0; i < 40000 && !rl.SetupDone(); i++ {
					time.Sleep(50 * time.Microsecond)
				}
			}
			submit(9998, Step{Op: "pub", QoS: 1, Tag: Sentinel2})
			if atomic.LoadInt32(&r.hung) != 0 {
				return windUp()
			}
			ok = tr.WaitFor(Watchdog, func() bool { return AckConsumedLocked(tr, "P:"+Sentinel2) })
		}
		if ok {
			// queues must drain (the sentinel is the last entry of the FIFO)
			for i := 0; i < 4000; i++ {
				st := retry.Stats()
				if st.QueuedTasks == 0 && st.QueuedRetries == 0 {
					r.Quiescent = true
					break
				}
				time.Sleep(250 * time.Microsecond)
			}
			if !r.Quiescent {
				r.Inconcl = "sentinel acknowledged but queues did not drain"
			}
		} else if r.Livelock {
			// verdict by connection count, see above
		} else {
			// certified stuck?
			if r.certifyStuck() {
				r.Stuck = true
			} else {
				r.Inconcl = "sentinel not acknowledged within the watchdog and the system was still moving"
			}
		}
	} else {
		r.Quiescent = true
	}
	// The reconnect goroutine pushes its Resubscribe/Retry tasks a few instructions after Connect
	// returned; if it is descheduled exactly there, both sentinels can complete first. For runs with
	// subscriptions the end state is therefore taken only once the trace has been still for a moment.
	hasSubs := false
	for _, l := range [][]Step{sc.Pre, sc.Steps, sc.SteerSteps} {
		for _, st := range l {
			if st.Op == "sub" || st.Op == "unsub" {
				hasSubs = true
			}
		}
	}
	if hasSubs && r.Quiescent {
		last := -1
		for i := 0; i < 50; i++ {
			n := tr.Len()
			st := retry.Stats()
			if n == last && st.QueuedTasks == 0 && st.QueuedRetries == 0 {
				break
			}
			last = n
			time.Sleep(1500 * time.Microsecond)
		}
	}
	// a connection that stopped answering PINGREQ while keep-alive is enabled must be given up by the client
	if sc.PingMs > 0 && len(br.Deaf) > 0 && r.Inconcl == "" {
		for id := range br.Deaf {
			id := id
			if !tr.WaitFor(Watchdog/2, func() bool { return tr.Conns[id-1].LocalClosed || tr.Conns[id-1].PeerClosed }) {
				r.DeafOpen = append(r.DeafOpen, id)
			}
		}
		if len(r.DeafOpen) == 0 && len(br.Deaf) > 0 && !sc.NoSentinel {
			// and the work goes on over a new connection
			submit(9997, Step{Op: "pub", QoS: 1, Tag: Sentinel3})
			if !tr.WaitFor(Watchdog/2, func() bool { return AckConsumedLocked(tr, "P:"+Sentinel3) }) {
				r.Inconcl = "sentinel after a keep-alive timeout not acknowledged within the watchdog"
			}
		}
	}
	r.StatsEnd = retry.Stats()
	tr.Mu.Lock()
	r.EndSeq = len(tr.Events)
	r.FinalSubs = map[string]byte{}
	for f, q := range br.Subs {
		r.FinalSubs[f] = q
	}
	tr.Mu.Unlock()
	if !sc.KeepOpen {
		r.finish(cli, ctx)
	}
	return r
}

func (r *Run) waitSettled(retry *mqtt.RetryClient) {
	tr := r.Tr
	idle := 150 * time.Millisecond
	for _, ms := range []int{r.Sc.WaitMaxMs, r.Sc.TimeoutMs, r.Sc.RespMs, r.Sc.PingMs} {
		if r.Sc.TimeoutMs == 0 && ms == r.Sc.TimeoutMs {
			continue
		}
		if d := 3 * time.Duration(ms) * time.Millisecond; d > idle && d < 2*time.Second {
			idle = d
		}
	}
	deadline := time.Now().Add(Watchdog)
	lastN, lastChange := -1, time.Now()
	for time.Now().Before(deadline) {
		tr.Mu.Lock()
		n := len(tr.Events)
		left := r.Br.FaultsLeft()
		down := r.Br.Down
		done := true
		for _, s := range r.SubmSnapshot() {
			if s.Accepted && !(s.Step.Op == "pub" && s.Step.QoS == 0) && ackCount(tr.Events, s.Step.Key()) == 0 {
				done = false
				break
			}
		}
		tr.Mu.Unlock()
		if left == 0 && !down {
			return
		}
		if done {
			st := retry.Stats()
			if st.QueuedTasks == 0 && st.QueuedRetries == 0 {
				return
			}
		}
		if n != lastN {
			lastN, lastChange = n, time.Now()
		} else if time.Since(lastChange) > idle {
			return
		}
		time.Sleep(300 * time.Microsecond)
	}
}

func (r *Run) finish(cli mqtt.Client, ctx context.Context) {
	done := make(chan struct{})
	go func() {
		defer close(done)
		defer func() { recover() }() // Disconnect of a never-connected reconnect client is C09's concern, not tear-down's
		dctx, cancel := context.WithTimeout(ctx, time.Second)
		defer cancel()
		cli.Disconnect(dctx)
	}()
	select {
	case <-done:
	case <-time.After(2 * time.Second):
	}
	r.Tr.Mu.Lock()
	for _, c := range r.Tr.Conns {
		if !c.LocalClosed {
			c.PeerCloseLocked("tear-down")
		}
	}
	r.Tr.Mu.Unlock()
}

// certifyStuck: two snapshots a generous interval apart must be identical
// (event count, stats, buffered bytes) and every library goroutine must be
// blocked. Only then is "no progress possible" certified.
func (r *Run) certifyStuck() bool {
	snap := func() string {
		r.Tr.Mu.Lock()
		defer r.Tr.Mu.Unlock()
		s := fmt.Sprintf("%d|", len(r.Tr.Events))
		for _, c := range r.Tr.Conns {
			s += fmt.Sprintf("%d:%d:%d:%v:%v|", c.ID, c.Consumed, c.Writes, c.LocalClosed, c.PeerClosed)
		}
		return s
	}
	wait := time.Second
	for _, ms := range []int{r.Sc.WaitMaxMs, r.Sc.TimeoutMs, r.Sc.RespMs, r.Sc.PingMs} {
		if d := 20 * time.Duration(ms) * time.Millisecond; d > wait {
			wait = d
		}
	}
	if wait > 45*time.Second {
		wait = 45 * time.Second
	}
	s1, st1 := snap(), safeStats(r.RC)
	time.Sleep(wait)
	s2, st2 := snap(), safeStats(r.RC)
	if s1 != s2 || st1 != st2 {
		return false
	}
	buf := make([]byte, 1<<20)
	buf = buf[:runtime.Stack(buf, true)]
	r.GoDump = libGoroutines(string(buf))
	for _, g := range strings.Split(string(buf), "\n\n") {
		if !strings.Contains(g, "github.com/at-wat/mqtt-go.") {
			continue
		}
		head := g
		if i := strings.Index(g, "\n"); i > 0 {
			head = g[:i]
		}
		if strings.Contains(head, "[running]") || strings.Contains(head, "[runnable]") {
			if strings.Contains(g, "certifyStuck") {
				continue
			}
			return false
		}
	}
	return true
}

// SubmSnapshot returns the submissions recorded so far (handlers may still be submitting).
func (r *Run) SubmSnapshot() []*Submission {
	r.submMu.Lock()
	defer r.submMu.Unlock()
	return append([]*Submission{}, r.Subm...)
}

// safeStats is RetryClient.Stats with a guard: when the client's lock is held forever (which is what a stuck
// run may well be about) it gives up and reports zero values with TotalTasks = -1.
func safeStats(rc *mqtt.RetryClient) mqtt.RetryStats {
	ch := make(chan mqtt.RetryStats, 1)
	go func() { ch <- rc.Stats() }()
	select {
	case st := <-ch:
		return st
	case <-time.After(2 * time.Second):
		return mqtt.RetryStats{TotalTasks: -1}
	}
}

func libGoroutines(dump string) string {
	var out []string
	for _, g := range strings.Split(dump, "\n\n") {
		if strings.Contains(g, "github.com/at-wat/mqtt-go.") && !strings.Contains(g, "certifyStuck") {
			lines := strings.Split(g, "\n")
			if len(lines) > 9 {
				lines = lines[:9]
			}
			out = append(out, strings.Join(lines, "\n"))
		}
	}
	return strings.Join(out, "\n\n")
}

// AckConsumedLocked reports whether some transmission of the request with the
// given key has been acknowledged and the acknowledgement consumed by the client.
func AckConsumedLocked(tr *memnet.Trace, key string) bool {
	return ackCount(tr.Events, key) > 0
}

// AckCount counts transmissions of key whose acknowledgement was consumed.
func AckCount(ev []memnet.Event, key string) int { return ackCount(ev, key) }

func finalAckType(p *mqttref.Packet) int {
	switch p.Type {
	case mqttref.PUBLISH:
		if p.QoS == 1 {
			return mqttref.PUBACK
		}
		return mqttref.PUBREC
	case mqttref.PUBREL:
		return mqttref.PUBCOMP
	case mqttref.SUBSCRIBE:
		return mqttref.SUBACK
	case mqttref.UNSUBSCRIBE:
		return mqttref.UNSUBACK
	}
	return -1
}

func ackCount(ev []memnet.Event, key string) int {
	n := 0
	// QoS 2: the final acknowledgement answers PUBREL; map PUBREL ids to keys through the PUBLISH attempts
	idKey := map[uint16]string{}
	type pend struct {
		conn int
		id   uint16
		typ  int
	}
	pendSend := map[int]bool{} // send seq -> counts for key
	var open []pend
	for _, e := range ev {
		switch e.Kind {
		case memnet.KWrite:
			if e.Pkt == nil || !e.OK {
				if e.Pkt != nil && e.Pkt.Type == mqttref.PUBLISH && e.Pkt.QoS == 2 {
					idKey[e.Pkt.ID] = PktKey(e.Pkt)
				}
				continue
			}
			p := e.Pkt
			k := PktKey(p)
			if p.Type == mqttref.PUBLISH && p.QoS == 2 {
				idKey[p.ID] = k
				continue // PUBREC is not the final acknowledgement
			}
			if p.Type == mqttref.PUBREL {
				k = idKey[p.ID]
			}
			if k == key {
				open = append(open, pend{e.Conn, p.ID, finalAckType(p)})
			}
		case memnet.KSend:
			if e.Pkt == nil {
				continue
			}
			for i, o := range open {
				if o.conn == e.Conn && o.id == e.Pkt.ID && o.typ == e.Pkt.Type {
					pendSend[e.Seq] = true
					open = append(open[:i], open[i+1:]...)
					break
				}
			}
		case memnet.KConsumed:
			if pendSend[e.Ref] {
				n++
				delete(pendSend, e.Ref)
			}
		}
	}
	return n
}

// retryLoop is a hand-written reconnect loop around RetryClient, following the Retryer contract
// ("SetClient sets the new BaseClient. Call Retry() and Resubscribe() to process queued messages and
// subscriptions"). It implements mqtt.Client: Connect starts the loop and waits for the first
// established connection, Disconnect stops it.
type retryLoop struct {
	*mqtt.RetryClient
	d             *Dialer
	sc            *Scenario
	tr            *memnet.Trace
	base, max, to int
	stop, done    chan struct{}
	first         chan error
	stopOnce      sync.Once
	setupPending  int32         // connections whose Resubscribe/Retry tasks have not both been pushed yet
	switchReq     chan struct{} // make-before-break requested (step "switch")
	switches      int32         // completed make-before-break switches
	onSwitched    func()        // called after SetClient(new) while the old connection is still open
	chaosN        uint32
}

// chaos returns a deterministic pseudo-random number in [0,n) (the loop's own decisions).
func (l *retryLoop) chaos(n int) int {
	l.chaosN = l.chaosN*1664525 + 1013904223 + uint32(len(l.sc.Steps))
	return int(l.chaosN>>16) % n
}

// SetupDone reports whether the loop has pushed the tasks of every established connection.
func (l *retryLoop) SetupDone() bool { return atomic.LoadInt32(&l.setupPending) == 0 }

func (l *retryLoop) Connect(ctx context.Context, clientID string, opts ...mqtt.ConnectOption) (bool, error) {
	go l.run(clientID, opts)
	select {
	case err := <-l.first:
		return false, err
	case <-ctx.Done():
		return false, ctx.Err()
	}
}

func (l *retryLoop) run(clientID string, opts []mqtt.ConnectOption) {
	defer close(l.done)
	ctx := context.Background()
	wait := time.Duration(l.base) * time.Millisecond
	initialized := false
	sleep := func() bool {
		select {
		case <-time.After(wait):
		case <-l.stop:
			return false
		}
		wait *= 2
		if m := time.Duration(l.max) * time.Millisecond; wait > m {
			wait = m
		}
		return true
	}
	var oldCli *mqtt.BaseClient
	for {
		select {
		case <-l.stop:
			return
		default:
		}
		baseCli, err := l.d.DialContext(ctx)
		if err != nil {
			if !sleep() {
				return
			}
			continue
		}
		atomic.AddInt32(&l.setupPending, 1) // until Resubscribe/Retry of this connection are both pushed
		if l.sc.Client == "retry-chaotic" && l.chaos(3) == 0 && oldCli == nil {
			// a dialled client is handed to SetClient and then abandoned without connecting it
			l.RetryClient.SetClient(ctx, baseCli)
			baseCli.Close()
			l.tr.Note("retry-chaotic: client abandoned after SetClient")
			atomic.AddInt32(&l.setupPending, -1)
			continue
		}
		l.RetryClient.SetClient(ctx, baseCli)
		if oldCli != nil {
			// make-before-break: the previous connection is still open; whatever arrives on it now must still
			// reach the application
			l.tr.Note("make-before-break: new client installed, previous connection still open")
			if l.onSwitched != nil {
				l.onSwitched()
			}
		}
		cctx, cancel := context.WithTimeout(ctx, time.Duration(l.to)*time.Millisecond)
		sp, err := l.RetryClient.Connect(cctx, clientID, opts...)
		cancel()
		if oldCli != nil {
			oldCli.Close() // (a broker would end the previous connection of the same client id now)
			<-oldCli.Done()
			oldCli = nil
			atomic.AddInt32(&l.switches, 1)
		}
		if err != nil {
			atomic.AddInt32(&l.setupPending, -1)
			baseCli.Close()
			<-baseCli.Done()
			if !sleep() {
				return
			}
			continue
		}
		wait = time.Duration(l.base) * time.Millisecond
		resub := initialized && (!sp || l.sc.AlwaysResub)
		if l.sc.Client == "retry-chaotic" {
			// the contract does not order or limit the calls: extra Retry / Resubscribe calls must be harmless
			// (re-subscription only where the reconnecting client would do it as well)
			if l.chaos(2) == 0 {
				l.RetryClient.Retry(ctx)
			}
			if resub {
				l.RetryClient.Resubscribe(ctx)
				if l.chaos(3) == 0 {
					l.RetryClient.Resubscribe(ctx)
				}
			}
			l.RetryClient.Retry(ctx)
			if l.chaos(2) == 0 {
				l.RetryClient.Retry(ctx)
			}
		} else if l.sc.Client == "retry-retryfirst" {
			l.RetryClient.Retry(ctx)
			if resub {
				l.RetryClient.Resubscribe(ctx)
			}
		} else {
			if resub {
				l.RetryClient.Resubscribe(ctx)
			}
			l.RetryClient.Retry(ctx)
		}
		atomic.AddInt32(&l.setupPending, -1)
		if !initialized {
			initialized = true
			l.first <- nil
		}
		select {
		case <-baseCli.Done():
			if baseCli.Err() == nil {
				return
			}
		case <-l.stop:
			return
		case <-l.switchReq:
			oldCli = baseCli
			continue
		}
		if !sleep() {
			return
		}
	}
}

func (l *retryLoop) Disconnect(ctx context.Context) error {
	l.stopOnce.Do(func() { close(l.stop) })
	err := l.RetryClient.Disconnect(ctx)
	select {
	case <-l.done:
	case <-ctx.Done():
	}
	return err
}
