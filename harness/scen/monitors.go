package scen

import (
	"fmt"
	"sort"
	"strings"

	"verif/memnet"
	"verif/mqttref"
)

// Finding is one violation found by a monitor.
type Finding struct {
	Sig    string
	Detail string
}

// Analysis is the shared pre-computation over the trace of a Run (events up to
// the end of the observed phase; tear-down is excluded).
type Analysis struct {
	R  *Run
	Ev []memnet.Event
	// ids shared by two different QoS>0 messages make PUBREL/PUBCOMP attribution
	// ambiguous (ids are re-randomised per connection): such runs are skipped.
	IDCollision   string
	idKey         map[uint16]string
	SubIdx        map[string]int // request key -> submission order (first submission with that key)
	KeyCount      map[string]int // accepted submissions per key
	Order         []*Submission  // request submissions in call order
	TwoSubmitters bool
}

// Analyse prepares the shared analysis.
func Analyse(r *Run) *Analysis {
	a := &Analysis{R: r, idKey: map[uint16]string{}, SubIdx: map[string]int{}, KeyCount: map[string]int{}}
	ev := r.Tr.Snapshot()
	if r.EndSeq > 0 && r.EndSeq < len(ev) {
		ev = ev[:r.EndSeq]
	}
	a.Ev = ev
	for _, e := range ev {
		if e.Kind == memnet.KWrite && e.Pkt != nil && e.Pkt.Type == mqttref.PUBLISH && e.Pkt.QoS > 0 {
			k := PktKey(e.Pkt)
			if old, ok := a.idKey[e.Pkt.ID]; ok && old != k {
				a.IDCollision = fmt.Sprintf("id %d used by %s and %s", e.Pkt.ID, old, k)
			}
			a.idKey[e.Pkt.ID] = k
		}
	}
	for _, s := range r.SubmSnapshot() {
		if s.Step.Key() != "" {
			a.Order = append(a.Order, s)
		}
	}
	sort.SliceStable(a.Order, func(i, j int) bool { return a.Order[i].CallSeq < a.Order[j].CallSeq })
	for i, s := range a.Order {
		k := s.Step.Key()
		if _, ok := a.SubIdx[k]; !ok {
			a.SubIdx[k] = i
		}
		if s.Accepted {
			a.KeyCount[k]++
		}
		if s.Idx >= 1000 && s.Idx < 9999 && r.Sc.SteerConn > 1 {
			a.TwoSubmitters = true
		}
		if s.Idx >= 2000 && s.Idx < 9000 {
			a.TwoSubmitters = true // submitted from inside a handler or the OnError callback, concurrently with the workload
		}
	}
	return a
}

// keyOf returns the request key a client packet belongs to (PUBREL through the id map).
func (a *Analysis) keyOf(p *mqttref.Packet) string {
	if p == nil {
		return ""
	}
	if p.Type == mqttref.PUBREL {
		return a.idKey[p.ID]
	}
	return PktKey(p)
}

// FaultShape summarises which faults actually fired (for distinctness).
func (a *Analysis) FaultShape() string {
	var s []string
	for _, e := range a.Ev {
		if e.Kind == memnet.KFault {
			t := "?"
			if e.Pkt != nil {
				t = mqttref.TypeName(e.Pkt.Type)
			}
			s = append(s, fmt.Sprintf("%s@%s#%d.c%d", e.S, t, e.N, e.Conn))
		}
	}
	return strings.Join(s, ";")
}

// Retransmissions counts PUBLISH/PUBREL/SUBSCRIBE/UNSUBSCRIBE attempts beyond the first per key.
func (a *Analysis) Retransmissions() int {
	seen := map[string]int{}
	n := 0
	for _, e := range a.Ev {
		if e.Kind == memnet.KWrite && e.Pkt != nil {
			if k := PktKey(e.Pkt); k != "" {
				seen[k]++
				if seen[k] > 1 {
					n++
				}
			}
		}
	}
	return n
}

// Connections returns the number of connections the dialer handed out.
func (a *Analysis) Connections() int {
	n := 0
	for _, e := range a.Ev {
		if e.Kind == memnet.KDialEnd && e.OK {
			n++
		}
	}
	return n
}

// ---------------------------------------------------------------------------
// C01: obligation ledger

// Ledger checks that every accepted QoS>=1 publish, subscribe and unsubscribe
// was acknowledged and the acknowledgement consumed on some connection.
func (a *Analysis) Ledger() []Finding {
	var out []Finding
	r := a.R
	if !r.Quiescent && !r.Stuck && !r.Livelock {
		return nil
	}
	keys := make([]string, 0, len(a.KeyCount))
	for k := range a.KeyCount {
		keys = append(keys, k)
	}
	sort.Strings(keys)
	for _, k := range keys {
		want := a.KeyCount[k]
		if strings.HasPrefix(k, "P:") {
			q := byte(0)
			for _, s := range a.Order {
				if s.Step.Key() == k {
					q = s.Step.QoS
				}
			}
			if q == 0 {
				continue
			}
		}
		got := ackCount(a.Ev, k)
		if got < want {
			kind := "lost"
			if r.Stuck {
				kind = "stalled"
			}
			if r.Livelock {
				kind = "livelock"
			}
			where := "post-connect"
			for _, s := range a.Order {
				if s.Step.Key() == k {
					if s.Idx < len(r.Sc.Pre) {
						where = "pre-connect"
					} else if s.Idx >= 1000 && s.Idx < 9999 {
						where = "steered-" + r.Sc.SteerAt
					}
				}
			}
			attempts := 0
			for _, e := range a.Ev {
				if e.Kind == memnet.KWrite && a.keyOf(e.Pkt) == k {
					attempts++
				}
			}
			out = append(out, Finding{fmt.Sprintf("%s:%s:%s", kind, k[:1], where),
				fmt.Sprintf("request %s was accepted %d time(s) (returned nil) but only %d acknowledgement(s) for it were consumed by the client; %d transmission attempts; run %s (queues at end: tasks=%d retries=%d)",
					k, want, got, attempts, map[bool]string{true: "quiescent after the sentinel was acknowledged", false: map[bool]string{true: fmt.Sprintf("live-locked: %d healthy connections after the faults stopped did not get it done", LivelockConns), false: "certified stuck"}[r.Livelock]}[r.Quiescent], r.StatsEnd.QueuedTasks, r.StatsEnd.QueuedRetries)})
		}
	}
	if r.Stuck && len(out) == 0 {
		out = append(out, Finding{"stalled:sentinel", "the closing sentinel publish was never acknowledged and the system is certified quiescent (nothing can make progress)"})
	}
	return out
}

// ---------------------------------------------------------------------------
// C02: QoS 2 exactly once

// ExactlyOnce checks onward deliveries of accepted QoS 2 messages (session kept).
func (a *Analysis) ExactlyOnce() []Finding {
	var out []Finding
	r := a.R
	if r.Sc.Cfg.Session == "lose" || r.Sc.Clean || a.IDCollision != "" {
		return nil
	}
	deliv := map[string]int{}
	for _, e := range a.Ev {
		if e.Kind == memnet.KDeliver {
			deliv[e.S]++
		}
	}
	for _, s := range a.Order {
		if s.Step.Op != "pub" || s.Step.QoS != 2 || !s.Accepted {
			continue
		}
		n := deliv[s.Step.Tag]
		if n >= 2 {
			out = append(out, Finding{"qos2-duplicate", fmt.Sprintf("QoS 2 message %s was delivered onward %d times by a session-keeping broker (method %s)", s.Step.Tag, n, r.Sc.Cfg.Method)})
		}
		if n == 0 && (r.Stuck || r.Livelock) {
			out = append(out, Finding{"qos2-not-delivered", fmt.Sprintf("QoS 2 message %s was accepted but never delivered onward, and never will be: the run is certified stuck / live-locked (method %s)", s.Step.Tag, r.Sc.Cfg.Method)})
		}
		if n == 0 && r.Quiescent {
			out = append(out, Finding{"qos2-not-delivered", fmt.Sprintf("QoS 2 message %s was never delivered onward although the run is quiescent (method %s)", s.Step.Tag, r.Sc.Cfg.Method)})
		}
	}
	// after PUBCOMP was consumed on a connection that then carried another client packet,
	// nothing may be transmitted for that message any more
	type done struct {
		conn, seq int
		moved     int
	}
	completed := map[string]*done{}
	sendKey := map[int]string{}
	for _, e := range a.Ev {
		switch e.Kind {
		case memnet.KSend:
			if e.Pkt != nil && e.Pkt.Type == mqttref.PUBCOMP {
				sendKey[e.Seq] = a.idKey[e.Pkt.ID]
			}
		case memnet.KConsumed:
			if k, ok := sendKey[e.Ref]; ok && k != "" {
				if completed[k] == nil {
					completed[k] = &done{conn: e.Conn, seq: e.Seq}
				}
			}
		case memnet.KWrite:
			k := a.keyOf(e.Pkt)
			for ck, d := range completed {
				// ("moved on" = the task goroutine wrote its next REQUEST; acknowledgements the reader goroutine
				// writes for inbound traffic say nothing about where the publish call is)
				if d.moved == 0 && e.Conn == d.conn && e.OK && e.Seq > d.seq && k != ck && k != "" {
					d.moved = e.Seq
				}
			}
			if d := completed[k]; d != nil && d.moved > 0 && e.Seq > d.moved {
				out = append(out, Finding{"transmit-after-pubcomp", fmt.Sprintf("%v was written for %s after its PUBCOMP had been consumed (#%d) and the client had moved on (#%d)", e.Pkt, k, d.seq, d.moved)})
				d.moved = -1
			}
		}
	}
	return out
}

// ---------------------------------------------------------------------------
// C03: order

// Order checks wire order against submission order.
func (a *Analysis) OrderCheck() []Finding {
	var out []Finding
	if a.TwoSubmitters {
		return nil
	}
	uniq := map[string]bool{}
	cnt := map[string]int{}
	for _, s := range a.Order {
		cnt[s.Step.Key()]++
	}
	for k, n := range cnt {
		uniq[k] = n == 1
	}
	// Resubscribe re-issues established subscriptions one filter per SUBSCRIBE: a single-filter request whose
	// (filter, QoS) also occurs in another Subscribe call cannot be told apart from that re-subscription
	fq := map[string]int{}
	for _, s := range a.Order {
		if s.Step.Op == "sub" {
			for _, x := range s.Step.Subs {
				fq[fmt.Sprintf("S:%s@%d", x.F, x.Q)]++
			}
		}
	}
	for k, n := range fq {
		if n > 1 {
			uniq[k] = false
		}
	}
	// R1: per connection, PUBLISH attempts in non-decreasing submission order
	last := map[int]int{}
	lastKey := map[int]string{}
	for _, e := range a.Ev {
		if e.Kind != memnet.KWrite || e.Pkt == nil || e.Pkt.Type != mqttref.PUBLISH {
			continue
		}
		if !e.OK || e.S != "" {
			// not on the wire: a write that failed locally (or was discarded after the peer closed). After a
			// failure the library re-attempts the queue once on the same, already dead connection; those
			// attempts never appear on the connection
			continue
		}
		k := PktKey(e.Pkt)
		idx, ok := a.SubIdx[k]
		if !ok {
			continue
		}
		if l, seen := last[e.Conn]; seen && idx < l {
			out = append(out, Finding{"publish-order-on-connection", fmt.Sprintf("connection %d: PUBLISH of %s (submitted #%d) written after PUBLISH of %s (submitted #%d)", e.Conn, k, idx, lastKey[e.Conn], l)})
			break
		}
		last[e.Conn], lastKey[e.Conn] = idx, k
	}
	// R2: first attempts of all requests strictly increasing in submission order
	first := map[string]bool{}
	li, lk := -1, ""
	for _, e := range a.Ev {
		if e.Kind != memnet.KWrite || e.Pkt == nil {
			continue
		}
		k := PktKey(e.Pkt)
		if k == "" || !uniq[k] || first[k] {
			continue
		}
		first[k] = true
		idx := a.SubIdx[k]
		if idx < li {
			out = append(out, Finding{"first-transmission-order", fmt.Sprintf("first transmission of %s (submitted #%d) comes after the first transmission of %s (submitted #%d)", k, idx, lk, li)})
			break
		}
		li, lk = idx, k
	}
	// R3: closing faults only => first deliveries of QoS>=1 messages in submission order
	closingOnly := true
	for _, e := range a.Ev {
		if e.Kind == memnet.KFault && (e.S == DropResp || e.S == DropReq || e.S == NoConnack) {
			closingOnly = false
		}
	}
	if closingOnly && a.R.Sc.RespMs == 0 {
		seen := map[string]bool{}
		li, lk = -1, ""
		for _, e := range a.Ev {
			if e.Kind != memnet.KDeliver || e.N == 0 || seen[e.S] {
				continue
			}
			seen[e.S] = true
			idx, ok := a.SubIdx["P:"+e.S]
			if !ok {
				continue
			}
			if idx < li {
				out = append(out, Finding{"first-delivery-order", fmt.Sprintf("broker first-delivered %s (submitted #%d) after %s (submitted #%d)", e.S, idx, lk, li)})
				break
			}
			li, lk = idx, e.S
		}
	}
	return out
}

// ---------------------------------------------------------------------------
// C12: faithful retransmissions

// Retransmit checks all PUBLISH/PUBREL attempts of every message.
func (a *Analysis) Retransmit() (out []Finding, retrans int) {
	if a.IDCollision != "" {
		return nil, 0
	}
	type att struct {
		e memnet.Event
	}
	pubs := map[string][]memnet.Event{}
	var keys []string
	recConsumed := map[string]bool{} // PUBREC for key consumed
	sendKey := map[int]string{}
	relOK := map[string]int{} // seq of first PUBREL attempt whose write succeeded
	steps := map[string]Step{}
	for _, s := range a.Order {
		steps[s.Step.Key()] = s.Step
	}
	for _, e := range a.Ev {
		switch e.Kind {
		case memnet.KSend:
			if e.Pkt != nil && e.Pkt.Type == mqttref.PUBREC {
				sendKey[e.Seq] = a.idKey[e.Pkt.ID]
			}
		case memnet.KConsumed:
			if k, ok := sendKey[e.Ref]; ok {
				recConsumed[k] = true
			}
		case memnet.KWrite:
			if e.Pkt == nil {
				continue
			}
			switch e.Pkt.Type {
			case mqttref.PUBLISH:
				k := PktKey(e.Pkt)
				if _, ok := pubs[k]; !ok {
					keys = append(keys, k)
				}
				if s, ok := relOK[k]; ok {
					out = append(out, Finding{"publish-after-pubrel", fmt.Sprintf("%v written (#%d) after PUBREL for the same message had been sent successfully (#%d)", e.Pkt, e.Seq, s)})
				}
				pubs[k] = append(pubs[k], e)
			case mqttref.PUBREL:
				k := a.idKey[e.Pkt.ID]
				if k == "" {
					out = append(out, Finding{"pubrel-unknown-id", fmt.Sprintf("PUBREL(%d) written but no QoS>0 PUBLISH ever carried that identifier", e.Pkt.ID)})
					continue
				}
				st := steps[k]
				if st.QoS != 2 {
					out = append(out, Finding{"pubrel-for-qos1", fmt.Sprintf("PUBREL(%d) written for %s which is QoS %d", e.Pkt.ID, k, st.QoS)})
				}
				if !recConsumed[k] {
					out = append(out, Finding{"pubrel-before-pubrec", fmt.Sprintf("PUBREL(%d) for %s written before any PUBREC for it was consumed", e.Pkt.ID, k)})
				}
				if e.OK {
					if _, ok := relOK[k]; !ok {
						relOK[k] = e.Seq
					}
				}
				if len(pubs[k]) > 0 {
					retrans++ // a PUBREL on a later connection is also a retransmission path
				}
			}
		}
	}
	for _, k := range keys {
		l := pubs[k]
		f := l[0].Pkt
		st, known := steps[k]
		if f.Dup {
			out = append(out, Finding{"first-transmission-dup", fmt.Sprintf("first transmission %v has DUP=1", f)})
		}
		if known && st.ID != 0 && f.QoS > 0 && f.ID != st.ID {
			out = append(out, Finding{"preset-id-changed", fmt.Sprintf("%s submitted with caller-set identifier %d went out with %d", k, st.ID, f.ID)})
		}
		if known && (f.QoS != st.QoS || f.Retain != st.Retain || f.Topic != "t/"+st.Tag) {
			out = append(out, Finding{"publish-fields", fmt.Sprintf("%s submitted as q%d retain=%v went out as %v", k, st.QoS, st.Retain, f)})
		}
		if f.QoS == 0 && len(l) > 1 {
			out = append(out, Finding{"qos0-retransmitted", fmt.Sprintf("QoS 0 message %s was written %d times", k, len(l))})
		}
		for _, e := range l[1:] {
			p := e.Pkt
			retrans++
			if !p.Dup {
				out = append(out, Finding{"retransmission-without-dup", fmt.Sprintf("retransmission %v (#%d) has DUP=0", p, e.Seq)})
			}
			if p.ID != f.ID || p.Topic != f.Topic || p.QoS != f.QoS || p.Retain != f.Retain || string(p.Payload) != string(f.Payload) {
				out = append(out, Finding{"retransmission-differs", fmt.Sprintf("retransmission %v differs from first transmission %v", p, f)})
			}
		}
	}
	return out, retrans
}

// ---------------------------------------------------------------------------
// C08: subscriptions

// SubsModel folds the accepted Subscribe/Unsubscribe calls in call order.
func (a *Analysis) SubsModel() map[string]byte {
	m := map[string]byte{}
	for _, s := range a.Order {
		if !s.Accepted {
			continue
		}
		switch s.Step.Op {
		case "sub":
			for _, x := range s.Step.Subs {
				m[x.F] = x.Q
			}
		case "unsub":
			for _, f := range s.Step.Filters {
				delete(m, f)
			}
		}
	}
	return m
}

// Subscriptions checks convergence of the broker table and the resubscribe rules.
func (a *Analysis) Subscriptions() (out []Finding, resubs int) {
	r := a.R
	// (in a certified-stuck or live-locked run nothing will change any more: the table as it stands is final)
	if r.Quiescent || r.Stuck || r.Livelock {
		want := a.SubsModel()
		got := r.FinalSubs
		var diff []string
		for f, q := range want {
			if g, ok := got[f]; !ok {
				diff = append(diff, fmt.Sprintf("missing %s@%d", f, q))
			} else if g != q {
				diff = append(diff, fmt.Sprintf("%s has QoS %d, want %d", f, g, q))
			}
		}
		for f, q := range got {
			if _, ok := want[f]; !ok {
				diff = append(diff, fmt.Sprintf("extra %s@%d", f, q))
			}
		}
		sort.Strings(diff)
		if len(diff) > 0 {
			kind := "missing"
			if strings.HasPrefix(diff[0], "extra") {
				kind = "extra"
			} else if strings.Contains(diff[0], "has QoS") {
				kind = "qos"
			}
			out = append(out, Finding{"subscription-table:" + kind, fmt.Sprintf("broker-side subscriptions at quiescence differ from the net effect of the application's calls: %s (session=%s always=%v quiescent=%v stuck=%v livelock=%v)", strings.Join(diff, "; "), r.Sc.Cfg.Session, r.Sc.AlwaysResub, r.Quiescent, r.Stuck, r.Livelock)})
		}
	}
	// per connection: SUBSCRIBE packets that cannot be application requests
	appCount := map[string]int{}
	for _, s := range a.Order {
		if s.Step.Op == "sub" {
			appCount[s.Step.Key()]++
		}
	}
	perConn := map[int]map[string]int{}
	connOrd := map[int]int{}
	n := 0
	for _, e := range a.Ev {
		if e.Kind == memnet.KDialEnd && e.OK {
			n++
			connOrd[e.Conn] = n
		}
		// only packets that reached the broker side: the library legitimately re-attempts a failed
		// request on the same, already dead connection (its writes fail locally)
		if e.Kind == memnet.KWrite && e.Pkt != nil && e.Pkt.Type == mqttref.SUBSCRIBE && e.OK && e.S == "" {
			if perConn[e.Conn] == nil {
				perConn[e.Conn] = map[string]int{}
			}
			perConn[e.Conn][PktKey(e.Pkt)]++
		}
	}
	for conn, m := range perConn {
		ord := connOrd[conn]
		sp := false
		if ord >= 1 && ord <= len(r.Br.SessionPresentSent) {
			// connection ordinals and CONNECTs seen by the broker coincide unless CONNECT was lost; be conservative
			sp = a.sessionPresentOn(conn)
		}
		allowed := ord > 1 && a.connectedBefore(conn) && (!sp || r.Sc.AlwaysResub)
		for k, c := range m {
			extra := c - appCount[k]
			if extra > 0 {
				resubs += extra
				if !allowed {
					why := "on the first established connection"
					if a.connectedBefore(conn) {
						why = "although the broker reported the session present and AlwaysResubscribe is off"
					}
					out = append(out, Finding{"resubscribe-not-allowed", fmt.Sprintf("connection %d carries %d SUBSCRIBE %s but the application made %d such request(s): re-subscription %s", conn, c, k, appCount[k], why)})
				}
			}
		}
	}
	return out, resubs
}

func (a *Analysis) sessionPresentOn(conn int) bool {
	for _, e := range a.Ev {
		if e.Kind == memnet.KSend && e.Conn == conn && e.Pkt != nil && e.Pkt.Type == mqttref.CONNACK {
			return e.Pkt.SessionPresent
		}
	}
	return false
}

// connectedBefore reports whether an accepting CONNACK was consumed on an earlier connection.
func (a *Analysis) connectedBefore(conn int) bool {
	acc := map[int]bool{}
	for _, e := range a.Ev {
		if e.Kind == memnet.KSend && e.Pkt != nil && e.Pkt.Type == mqttref.CONNACK && e.Pkt.Code == 0 {
			acc[e.Seq] = true
		}
		if e.Kind == memnet.KConsumed && acc[e.Ref] && e.Conn < conn {
			return true
		}
	}
	return false
}

// ---------------------------------------------------------------------------
// C17: handler on every connection

// HandlerCheck verifies that consumed inbound messages reached the registered handler exactly once.
func (a *Analysis) HandlerCheck() (out []Finding, checked int, conns map[int]bool) {
	conns = map[int]bool{}
	type hspan struct {
		call, ret, h int
	}
	var spans []hspan
	open := map[int]int{}
	for _, e := range a.R.Tr.Snapshot() {
		if e.Kind == memnet.KCall && e.S == "Handle" {
			var h int
			fmt.Sscan(e.S2, &h)
			open[e.Seq] = len(spans)
			spans = append(spans, hspan{call: e.Seq, ret: 1 << 30, h: h})
		}
		if e.Kind == memnet.KRet && e.S == "Handle" {
			if i, ok := open[e.Ref]; ok {
				spans[i].ret = e.Seq
			}
		}
	}
	// Handle is not a blocking call: in a run certified stuck, a Handle call that never returned has taken the
	// handler (and whatever goroutine called it) out of service for good
	if a.R.Stuck {
		for _, sp := range spans {
			if sp.ret == 1<<30 {
				out = append(out, Finding{"handle-call-never-returns", fmt.Sprintf("Handle(h%d) called at #%d never returned and the run is certified stuck: the handler cannot receive anything any more", sp.h, sp.call)})
				break
			}
		}
	}
	// serve looks the handler up some time after the last byte was consumed and before it comes
	// back to read: the handler must be stable over that whole interval, i.e. from the consumed
	// event to the next thing the reader goroutine does on that connection.
	nextOnConn := func(seq, conn int) int {
		for _, e := range a.Ev {
			if e.Seq > seq && e.Conn == conn && (e.Kind == memnet.KConsumed || (e.Kind == memnet.KWrite && e.Pkt != nil && (e.Pkt.Type == mqttref.PUBACK || e.Pkt.Type == mqttref.PUBCOMP || e.Pkt.Type == mqttref.PUBREC))) {
				return e.Seq
			}
		}
		return 1 << 30
	}
	handlerAtConn := func(seq, conn int) (int, bool) {
		end := nextOnConn(seq, conn)
		h := 0
		for _, s := range spans {
			if s.call <= end && seq <= s.ret {
				return 0, false // a Handle call overlaps the interval
			}
			if s.ret < seq {
				h = s.h
			}
		}
		return h, true
	}
	// Monotonic mode: when every Handle call of the run registers a non-nil handler with a number larger
	// than all earlier ones, a stronger and interval-free rule applies (it also works while Handle is being
	// called continuously): a message whose last byte was consumed at s1 and whose reader moved on at s2 must
	// go, exactly once, to a handler h with L <= h <= U, where L is the largest handler whose Handle call had
	// RETURNED before s1 and U the largest whose call had STARTED before s2 (L == 0: dropping it is allowed).
	mono := len(spans) > 0
	for i, s := range spans {
		if s.h <= 0 || (i > 0 && s.h <= spans[i-1].h) {
			mono = false
		}
	}
	bounds := func(s1, conn int) (lo, hi int) {
		s2 := nextOnConn(s1, conn)
		for _, s := range spans {
			if s.ret < s1 && s.h > lo {
				lo = s.h
			}
			if s.call < s2 && s.h > hi {
				hi = s.h
			}
		}
		return lo, hi
	}
	// handler invocations by payload
	got := map[string][]Handled{}
	a.R.Tr.Mu.Lock()
	for _, h := range a.R.Handled {
		got[h.Payload] = append(got[h.Payload], h)
	}
	a.R.Tr.Mu.Unlock()
	sends := map[int]memnet.Event{}
	relConsumed := map[string]int{} // "conn/id" -> seq of consumed PUBREL
	q2 := map[string]memnet.Event{}
	lastConsumed := map[int]int{}
	for _, e := range a.Ev {
		if e.Kind == memnet.KConsumed {
			lastConsumed[e.Conn] = e.Seq
		}
	}
	for _, e := range a.Ev {
		if e.Kind == memnet.KSend && e.Pkt != nil {
			sends[e.Seq] = e
		}
		if e.Kind != memnet.KConsumed {
			continue
		}
		s, ok := sends[e.Ref]
		if !ok {
			continue
		}
		if s.Pkt.Type == mqttref.PUBREL {
			relConsumed[fmt.Sprintf("%d/%d", e.Conn, s.Pkt.ID)] = e.Seq
			if m, ok := q2[fmt.Sprintf("%d/%d", e.Conn, s.Pkt.ID)]; ok && e.Seq < lastConsumed[e.Conn] {
				pl := string(m.Pkt.Payload)
				if mono {
					lo, hi := bounds(e.Seq, e.Conn)
					checked++
					conns[e.Conn] = true
					out = append(out, a.expectHandledRange(pl, lo, hi, got[pl], e.Conn, 2)...)
					continue
				}
				h, stable := handlerAtConn(e.Seq, e.Conn)
				if !stable {
					continue
				}
				checked++
				conns[e.Conn] = true
				out = append(out, a.expectHandled(pl, h, got[pl], e.Conn, 2)...)
			}
			continue
		}
		if s.Pkt.Type != mqttref.PUBLISH || !strings.HasPrefix(s.Pkt.Topic, "in/") {
			continue
		}
		if s.Pkt.QoS == 2 {
			q2[fmt.Sprintf("%d/%d", e.Conn, s.Pkt.ID)] = s
			continue
		}
		// (the last packet consumed on a connection is judged like any other: once the reader has the whole packet it
		// hands it over whatever happens to the connection next; the handler's entry is recorded when it is entered,
		// and the analysis runs after tear-down. Its stability interval simply has no end.)
		pl := string(s.Pkt.Payload)
		if mono {
			lo, hi := bounds(e.Seq, e.Conn)
			checked++
			conns[e.Conn] = true
			out = append(out, a.expectHandledRange(pl, lo, hi, got[pl], e.Conn, int(s.Pkt.QoS))...)
			continue
		}
		h, stable := handlerAtConn(e.Seq, e.Conn)
		if !stable {
			continue
		}
		checked++
		conns[e.Conn] = true
		out = append(out, a.expectHandled(pl, h, got[pl], e.Conn, int(s.Pkt.QoS))...)
	}
	return out, checked, conns
}

func (a *Analysis) expectHandledRange(pl string, lo, hi int, got []Handled, conn, qos int) []Finding {
	if len(got) == 0 {
		if lo == 0 {
			return nil // no handler had been registered for sure when it was looked up
		}
		return []Finding{{"inbound-dropped", fmt.Sprintf("inbound %s (q%d) was consumed by the client on connection %d after Handle(h%d) had returned, but no handler was invoked", pl, qos, conn, lo)}}
	}
	if len(got) > 1 {
		return []Finding{{"inbound-duplicated", fmt.Sprintf("inbound %s (q%d, connection %d) was handed over %d times", pl, qos, conn, len(got))}}
	}
	if got[0].H < lo || got[0].H > hi {
		return []Finding{{"handler-stale", fmt.Sprintf("inbound %s (q%d, connection %d) went to handler h%d; Handle(h%d) had already returned when its last byte was consumed (newest handler whose registration had started: h%d)", pl, qos, conn, got[0].H, lo, hi)}}
	}
	return nil
}

func (a *Analysis) expectHandled(pl string, h int, got []Handled, conn, qos int) []Finding {
	if h == 0 {
		if len(got) > 0 {
			return []Finding{{"handler-stale", fmt.Sprintf("inbound %s (q%d, connection %d) was handed to handler h%d although no handler (nil) was registered at that time", pl, qos, conn, got[0].H)}}
		}
		return nil
	}
	if len(got) == 0 {
		return []Finding{{"inbound-dropped", fmt.Sprintf("inbound %s (q%d) was consumed by the client on connection %d while handler h%d was registered, but no handler was invoked", pl, qos, conn, h)}}
	}
	if len(got) > 1 {
		return []Finding{{"inbound-duplicated", fmt.Sprintf("inbound %s (q%d, connection %d) was handed over %d times", pl, qos, conn, len(got))}}
	}
	if got[0].H != h {
		return []Finding{{"handler-stale", fmt.Sprintf("inbound %s (q%d, connection %d) went to handler h%d, the registered handler was h%d", pl, qos, conn, got[0].H, h)}}
	}
	return nil
}

// ---------------------------------------------------------------------------
// generic: wire hygiene (used by several properties)

// Hygiene returns online violations and protocol errors seen by the broker.
func (a *Analysis) Hygiene() []Finding {
	var out []Finding
	a.R.Tr.Mu.Lock()
	for _, s := range a.R.Tr.Online {
		out = append(out, Finding{"online", s})
	}
	for _, s := range a.R.Br.ProtoErrors {
		out = append(out, Finding{"protocol-error", s})
	}
	a.R.Tr.Mu.Unlock()
	for _, e := range a.Ev {
		if e.Kind == memnet.KWrite && (e.Mal != "" || e.Pkt == nil) {
			out = append(out, Finding{"malformed-write", e.String()})
		}
	}
	return out
}

// Tail renders the last n events of the analysed phase.
func (a *Analysis) Tail(n int) []string {
	ev := a.Ev
	if len(ev) > n {
		ev = ev[len(ev)-n:]
	}
	out := make([]string, len(ev))
	for i, e := range ev {
		out[i] = e.String()
	}
	return out
}

// ---------------------------------------------------------------------------
// C09: reconnect lifecycle

// Lifecycle checks transport hygiene, CONNECT-first, back-off lower bounds and
// "no dial after Disconnect returned" over the whole trace (tear-down included).
func (a *Analysis) Lifecycle(baseMs, maxMs int) (out []Finding, redials int, backoffChecked int) {
	ev := a.R.Tr.Snapshot()
	base := int64(baseMs) * 1e6
	max := int64(maxMs) * 1e6
	k := 0
	haveEnd := false
	var tEnd int64
	curConn := 0
	closedSeen := map[int]bool{}
	disconnectRet := -1
	firstWrite := map[int]bool{}
	connects := map[int]int{}
	var ref *mqttref.Packet
	for _, e := range ev {
		switch e.Kind {
		case memnet.KRet:
			if e.S == "Disconnect" && disconnectRet < 0 {
				disconnectRet = e.Seq
			}
		case memnet.KDialStart:
			if disconnectRet >= 0 {
				out = append(out, Finding{"dial-after-disconnect", fmt.Sprintf("dial #%d started (#%d) after Disconnect had returned (#%d)", e.N, e.Seq, disconnectRet)})
			}
			if e.Ref != 0 {
				out = append(out, Finding{"two-open-transports", fmt.Sprintf("dial #%d started while %d transport(s) handed out earlier had not been closed by the library", e.N, e.Ref)})
			}
			if e.N > 1 {
				redials++
			}
			if haveEnd {
				bound := base << uint(k)
				if bound > max || bound <= 0 {
					bound = max
				}
				gap := int64(e.T) - tEnd
				backoffChecked++
				if gap < bound {
					out = append(out, Finding{"backoff-too-short", fmt.Sprintf("dial #%d started %.3fms after the previous attempt ended; lower bound is %.3fms (base %dms, max %dms, %d consecutive waits since the last success)", e.N, float64(gap)/1e6, float64(bound)/1e6, baseMs, maxMs, k)})
				}
				k++
			}
			haveEnd = false
		case memnet.KDialEnd:
			if e.OK {
				curConn = e.Conn
			} else {
				tEnd, haveEnd = int64(e.T), true
			}
		case memnet.KClose:
			if e.Conn == curConn && !closedSeen[e.Conn] {
				closedSeen[e.Conn] = true
				tEnd, haveEnd = int64(e.T), true
			}
		case memnet.KState:
			if e.S == "Active" && e.Conn == curConn {
				k = 0
			}
		case memnet.KWrite:
			if e.Pkt == nil {
				continue
			}
			if !firstWrite[e.Conn] {
				firstWrite[e.Conn] = true
				if e.Pkt.Type != mqttref.CONNECT {
					out = append(out, Finding{"first-packet-not-connect", fmt.Sprintf("connection %d: first packet written is %v", e.Conn, e.Pkt)})
				}
			}
			if e.Pkt.Type == mqttref.CONNECT {
				connects[e.Conn]++
				if connects[e.Conn] > 1 {
					out = append(out, Finding{"second-connect", fmt.Sprintf("connection %d carries %d CONNECT packets", e.Conn, connects[e.Conn])})
				}
				p := e.Pkt
				if ref == nil {
					ref = p
				} else if p.ClientID != ref.ClientID || p.CleanSession != ref.CleanSession || p.KeepAlive != ref.KeepAlive || p.HasWill != ref.HasWill || p.WillTopic != ref.WillTopic ||
					string(p.WillPayload) != string(ref.WillPayload) || p.WillQoS != ref.WillQoS || p.WillRetain != ref.WillRetain || p.UserName != ref.UserName || p.Password != ref.Password || p.ProtoLevel != ref.ProtoLevel {
					out = append(out, Finding{"connect-options-changed", fmt.Sprintf("connection %d: CONNECT %+v differs from the first connection's %+v", e.Conn, *p, *ref)})
				}
			}
		}
	}
	a.R.Tr.Mu.Lock()
	for _, s := range a.R.Br.ProtoErrors {
		out = append(out, Finding{"protocol-error", s})
	}
	a.R.Tr.Mu.Unlock()
	return out, redials, backoffChecked
}
