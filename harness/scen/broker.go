package scen

import (
	"fmt"
	"strings"
	"time"

	"verif/memnet"
	"verif/mqttref"
)

// Fault kinds attachable to the k-th client->broker request packet.
const (
	CutBeforeErr = "cutBeforeErr" // connection closed, the Write fails, packet not processed
	CutBeforeOK  = "cutBeforeOK"  // Write succeeds, packet discarded, reader gets EOF
	CutAfter     = "cutAfter"     // packet processed, response suppressed, EOF
	CutAfterResp = "cutAfterResp" // processed, response queued, then EOF
	DropResp     = "dropResp"     // processed, response silently dropped, link stays up
	DropReq      = "dropReq"      // swallowed: neither processed nor answered, link stays up (a stalled link)
	Refuse       = "refuse"       // CONNECT only: CONNACK with a refusal code, then close
	NoConnack    = "noConnack"    // CONNECT only: no answer, link stays up
)

// CutKinds are the closing faults applicable to every request packet.
var CutKinds = []string{CutBeforeErr, CutBeforeOK, CutAfter, CutAfterResp}

// Fault is one planned fault.
type Fault struct {
	At   int    `json:"at"` // ordinal of the client->broker request packet (CONNECT, PUBLISH, PUBREL, SUBSCRIBE, UNSUBSCRIBE), 1-based, across connections
	Kind string `json:"kind"`
}

// BrokerCfg configures the conforming broker model.
type BrokerCfg struct {
	Method    string `json:"method"`              // QoS 2 receiver method: "A" deliver on PUBLISH, "B" deliver on PUBREL
	Session   string `json:"session"`             // "keep" | "lose" (state forgotten at every connect, sessionPresent=0)
	Echo      bool   `json:"echo"`                // forward matching publishes back to the client (inbound traffic)
	Redeliver bool   `json:"redeliver,omitempty"` // session kept: inbound QoS 1/2 messages the client has not acknowledged (PUBACK / PUBREC) when a connection ends are sent again, DUP=1 and same identifier, right behind the next CONNACK
	Grant     string `json:"grant,omitempty"`     // SUBACK return codes: "" as requested, "low" one level below the request (0 stays 0), "hostile" failure and reserved codes (0x80, 0x03, 0x7f, 0xff) mixed with valid ones
}

// Delivery is one onward delivery by the broker.
type Delivery struct {
	Tag   string
	Topic string
	QoS   byte
	Conn  int
	Seq   int
}

// InMsg is a broker->client application message.
type InMsg struct {
	Tag  string `json:"tag"`
	QoS  byte   `json:"qos"`
	Hold bool   `json:"hold,omitempty"` // QoS 2 only: the broker withholds PUBREL until a "release" step
}

type bconn struct {
	gotConnect bool
	accepted   bool
	connect    *mqttref.Packet
	outQ2      map[uint16]bool
}

// Broker is a conforming MQTT 3.1.1 server model for one client id, with
// fault injection. All methods run under Trace.Mu.
type Broker struct {
	Tr     *memnet.Trace
	Cfg    BrokerCfg
	Faults map[int]string
	Ord    int // request packets seen so far
	Fired  []Fault

	hasSession         bool
	Subs               map[string]byte
	held               map[uint16]*mqttref.Packet // inbound QoS 2 ids (method A: marker; method B: stored message)
	Deliveries         []Delivery
	conns              map[int]*bconn
	Connects           []*mqttref.Packet
	SessionPresentSent []bool
	ProtoErrors        []string

	Down           bool // refuse to talk: current connection is cut, dials fail (checked by the dialer)
	Silent         bool // process nothing, answer nothing (link stays up)
	SilentPingOnly bool // answer everything except PINGREQ
	unacked        []outPending
	PingDelay      time.Duration // PINGRESP is sent this much later (slow but alive)
	Deaf           map[int]bool  // connections on which PINGREQ is never answered again (everything else is)

	// OnConnect lists messages pushed to the client right behind each CONNACK
	// (index = connection ordinal-1; the last entry repeats).
	OnConnect      [][]InMsg
	nextOut        uint16
	holdRel        map[uint16]bool // outbound QoS 2 ids whose PUBREL is withheld
	pendRel        []uint16        // withheld PUBRELs whose PUBREC has arrived (current connection)
	Cur            *memnet.Conn
	SubackOverride func(p *mqttref.Packet) []byte
}

// NewBroker creates a broker model.
func NewBroker(tr *memnet.Trace, cfg BrokerCfg, faults []Fault) *Broker {
	b := &Broker{Tr: tr, Cfg: cfg, Faults: map[int]string{}, Subs: map[string]byte{}, held: map[uint16]*mqttref.Packet{}, conns: map[int]*bconn{}, nextOut: 1000}
	for _, f := range faults {
		b.Faults[f.At] = f.Kind
	}
	if b.Cfg.Method == "" {
		b.Cfg.Method = "A"
	}
	if b.Cfg.Session == "" {
		b.Cfg.Session = "keep"
	}
	return b
}

func isRequest(t int) bool {
	return t == mqttref.CONNECT || t == mqttref.PUBLISH || t == mqttref.PUBREL || t == mqttref.SUBSCRIBE || t == mqttref.UNSUBSCRIBE
}

// FaultsLeft reports whether planned faults have not fired yet.
func (b *Broker) FaultsLeft() int {
	n := 0
	for at := range b.Faults {
		if at > b.Ord {
			n++
		}
	}
	return n
}

// ClearFaults removes all faults that have not fired (stabilisation).
func (b *Broker) ClearFaults() {
	for at := range b.Faults {
		if at > b.Ord {
			delete(b.Faults, at)
		}
	}
}

// OnPacket implements memnet.Peer.
func (b *Broker) OnPacket(c *memnet.Conn, raw []byte, p *mqttref.Packet, perr error) bool {
	bc := b.conns[c.ID]
	if bc == nil {
		bc = &bconn{outQ2: map[uint16]bool{}}
		b.conns[c.ID] = bc
		b.Cur = c
	}
	if perr != nil || p == nil {
		b.ProtoErrors = append(b.ProtoErrors, fmt.Sprintf("conn %d: malformed packet from client: %v", c.ID, perr))
		c.PeerCloseLocked("protocol error: malformed packet")
		return false
	}
	if b.Silent {
		return false
	}
	kind := ""
	if isRequest(p.Type) {
		b.Ord++
		kind = b.Faults[b.Ord]
		if p.Type != mqttref.CONNECT && (kind == NoConnack || (len(kind) >= 6 && kind[:6] == Refuse)) {
			kind = "" // CONNECT-only faults planned on another packet do nothing
		}
		if kind != "" {
			b.Fired = append(b.Fired, Fault{b.Ord, kind})
			b.Tr.AddLocked(memnet.Event{Kind: memnet.KFault, Conn: c.ID, S: kind, N: b.Ord, Pkt: p})
		}
	}
	switch kind {
	case CutBeforeErr:
		c.PeerCloseLocked("fault " + kind)
		return true
	case CutBeforeOK:
		c.PeerCloseLocked("fault " + kind)
		return false
	case DropReq:
		if p.Type != mqttref.CONNECT {
			return false
		}
	}
	resp, closeAfter := b.process(c, bc, p, kind)
	switch kind {
	case CutAfter:
		c.PeerCloseLocked("fault " + kind)
		return false
	case DropResp, NoConnack:
		return false
	}
	for _, r := range resp {
		c.SendLocked(r.raw, r.tag)
	}
	if kind == CutAfterResp || closeAfter {
		c.PeerCloseLocked("fault/close after response " + kind)
	}
	return false
}

// OnClientClose implements memnet.Peer.
func (b *Broker) OnClientClose(c *memnet.Conn) {}

type bresp struct {
	raw []byte
	tag string
}

func (b *Broker) deliver(c *memnet.Conn, p *mqttref.Packet) []bresp {
	d := Delivery{Tag: string(p.Payload), Topic: p.Topic, QoS: p.QoS, Conn: c.ID}
	d.Seq = b.Tr.AddLocked(memnet.Event{Kind: memnet.KDeliver, Conn: c.ID, S: d.Tag, S2: p.Topic, N: int(p.QoS)})
	b.Deliveries = append(b.Deliveries, d)
	var out []bresp
	if b.Cfg.Echo {
		best := -1
		for f, q := range b.Subs {
			if refTopicMatch(f, p.Topic) && int(q) > best {
				best = int(q)
			}
		}
		if best >= 0 {
			q := p.QoS
			if byte(best) < q {
				q = byte(best)
			}
			out = append(out, b.outMsg(p.Topic, p.Payload, q))
		}
	}
	return out
}

func (b *Broker) outMsg(topic string, payload []byte, q byte) bresp {
	id := uint16(0)
	if q > 0 {
		b.nextOut++
		if b.nextOut == 0 {
			b.nextOut = 1
		}
		id = b.nextOut
		if b.Cfg.Redeliver && strings.HasPrefix(topic, "in/") {
			b.unacked = append(b.unacked, outPending{topic: topic, q: q, id: id})
		}
	}
	return bresp{mqttref.EncPublish(topic, payload, q, false, false, id), "in:" + string(payload)}
}

// outPending is an inbound (broker -> client) QoS 1/2 message the client has not acknowledged yet.
type outPending struct {
	topic string
	q     byte
	id    uint16
}

func (b *Broker) ackOut(id uint16) {
	for i, u := range b.unacked {
		if u.id == id {
			b.unacked = append(b.unacked[:i:i], b.unacked[i+1:]...)
			return
		}
	}
}

func (b *Broker) process(c *memnet.Conn, bc *bconn, p *mqttref.Packet, kind string) (resp []bresp, closeAfter bool) {
	if p.Type != mqttref.CONNECT && !bc.accepted {
		if !bc.gotConnect {
			b.ProtoErrors = append(b.ProtoErrors, fmt.Sprintf("conn %d: %s before CONNECT", c.ID, mqttref.TypeName(p.Type)))
		}
		return nil, true // refused connection: ignore and close
	}
	switch p.Type {
	case mqttref.CONNECT:
		if bc.gotConnect {
			b.ProtoErrors = append(b.ProtoErrors, fmt.Sprintf("conn %d: second CONNECT", c.ID))
			return nil, true
		}
		bc.gotConnect = true
		bc.connect = p
		b.pendRel = nil
		b.Connects = append(b.Connects, p)
		if len(kind) >= 6 && kind[:6] == Refuse {
			code := byte(3)
			if len(kind) > 7 {
				code = kind[7] - '0'
			}
			b.SessionPresentSent = append(b.SessionPresentSent, false)
			// "refuse:N" closes after the refusal; "refuseopen:N" leaves closing to the client
			closeIt := !(len(kind) >= 10 && kind[:10] == "refuseopen")
			if !closeIt {
				code = kind[len(kind)-1] - '0'
			}
			return []bresp{{mqttref.EncConnAck(false, code), ""}}, closeIt
		}
		sp := false
		if b.Cfg.Session == "lose" || p.CleanSession {
			b.Subs = map[string]byte{}
			b.held = map[uint16]*mqttref.Packet{}
			b.hasSession = false
			b.unacked = nil
		} else {
			sp = b.hasSession
			b.hasSession = true
		}
		bc.accepted = true
		b.SessionPresentSent = append(b.SessionPresentSent, sp)
		resp = append(resp, bresp{mqttref.EncConnAck(sp, 0), ""})
		if b.Cfg.Redeliver && (kind == "" || kind == CutAfterResp) {
			// unacknowledged inbound messages of the session come again: same identifier, DUP=1
			for _, u := range b.unacked {
				tag := strings.TrimPrefix(u.topic, "in/")
				pl := []byte(fmt.Sprintf("%s@%d/redelivered-id%d", tag, c.ID, u.id))
				resp = append(resp, bresp{mqttref.EncPublish(u.topic, pl, u.q, true, false, u.id), "in:" + string(pl)})
			}
		}
		if kind == "" || kind == CutAfterResp {
			if n := len(b.OnConnect); n > 0 {
				i := len(b.Connects) - 1
				if i >= n {
					i = n - 1
				}
				for _, m := range b.OnConnect[i] {
					resp = append(resp, b.outMsg("in/"+m.Tag, []byte(fmt.Sprintf("%s@%d", m.Tag, c.ID)), m.QoS))
				}
			}
		}
		return resp, false
	case mqttref.PUBLISH:
		switch p.QoS {
		case 0:
			resp = append(resp, b.deliver(c, p)...)
		case 1:
			resp = append(resp, b.deliver(c, p)...)
			resp = append(resp, bresp{mqttref.EncAck(mqttref.PUBACK, p.ID), ""})
		case 2:
			if b.Cfg.Method == "A" {
				if _, dup := b.held[p.ID]; !dup {
					b.held[p.ID] = p
					resp = append(resp, b.deliver(c, p)...)
				}
			} else if _, dup := b.held[p.ID]; !dup {
				b.held[p.ID] = p
			}
			resp = append(resp, bresp{mqttref.EncAck(mqttref.PUBREC, p.ID), ""})
		}
	case mqttref.PUBREL:
		if m, ok := b.held[p.ID]; ok {
			delete(b.held, p.ID)
			if b.Cfg.Method == "B" {
				resp = append(resp, b.deliver(c, m)...)
			}
		}
		resp = append(resp, bresp{mqttref.EncAck(mqttref.PUBCOMP, p.ID), ""})
	case mqttref.SUBSCRIBE:
		codes := make([]byte, len(p.Subs))
		for i, s := range p.Subs {
			b.Subs[s.Filter] = s.QoS
			codes[i] = s.QoS
		}
		for i, s := range p.Subs {
			switch b.Cfg.Grant {
			case "low":
				if codes[i] > 0 {
					codes[i]--
				}
			case "hostile":
				h := 0
				for _, ch := range s.Filter {
					h = h*31 + int(ch)
				}
				codes[i] = []byte{0x80, 0x03, 0x7f, 0xff, 0x02, 0x00, 0x01, 0x80}[(h+int(p.ID))%8]
			}
		}
		if b.SubackOverride != nil {
			if o := b.SubackOverride(p); o != nil {
				codes = o
			}
		}
		resp = append(resp, bresp{mqttref.EncSubAck(p.ID, codes), ""})
	case mqttref.UNSUBSCRIBE:
		for _, f := range p.Filters {
			delete(b.Subs, f)
		}
		resp = append(resp, bresp{mqttref.EncAck(mqttref.UNSUBACK, p.ID), ""})
	case mqttref.PINGREQ:
		if !b.SilentPingOnly && !b.Deaf[c.ID] {
			if b.PingDelay > 0 {
				go func(d time.Duration) {
					time.Sleep(d)
					b.Tr.Mu.Lock()
					if c.OpenLocked() {
						c.SendLocked(mqttref.EncPingResp(), "delayed PINGRESP")
					}
					b.Tr.Mu.Unlock()
				}(b.PingDelay)
			} else {
				resp = append(resp, bresp{mqttref.EncPingResp(), ""})
			}
		}
	case mqttref.DISCONNECT:
		return nil, true
	case mqttref.PUBREC:
		// client acknowledges an inbound QoS 2 message
		b.ackOut(p.ID)
		if b.holdRel[p.ID] {
			b.pendRel = append(b.pendRel, p.ID)
		} else {
			resp = append(resp, bresp{mqttref.EncAck(mqttref.PUBREL, p.ID), ""})
		}
	case mqttref.PUBACK:
		b.ackOut(p.ID)
	case mqttref.PUBCOMP:
	default:
		b.ProtoErrors = append(b.ProtoErrors, fmt.Sprintf("conn %d: unexpected %s from client", c.ID, mqttref.TypeName(p.Type)))
		return nil, true
	}
	return resp, false
}

// Push sends an application message to the client on the current connection.
// Mu must be held. Returns false if there is no open accepted connection.
func (b *Broker) PushLocked(m InMsg) bool {
	c := b.Cur
	if c == nil || !c.OpenLocked() {
		return false
	}
	bc := b.conns[c.ID]
	if bc == nil || !bc.accepted {
		return false
	}
	r := b.outMsg("in/"+m.Tag, []byte(fmt.Sprintf("%s@%d", m.Tag, c.ID)), m.QoS)
	if m.Hold && m.QoS == 2 {
		if b.holdRel == nil {
			b.holdRel = map[uint16]bool{}
		}
		b.holdRel[b.nextOut] = true
	}
	c.SendLocked(r.raw, r.tag)
	return true
}

// ReleaseLocked sends the withheld PUBRELs whose PUBREC arrived on the current connection.
func (b *Broker) ReleaseLocked() {
	c := b.Cur
	for _, id := range b.pendRel {
		delete(b.holdRel, id)
		if c != nil && c.OpenLocked() {
			c.SendLocked(mqttref.EncAck(mqttref.PUBREL, id), "")
		}
	}
	b.pendRel = nil
}

// CutNowLocked closes the current connection from the broker side.
func (b *Broker) CutNowLocked(why string) {
	if b.Cur != nil {
		b.Cur.PeerCloseLocked(why)
	}
}

// refTopicMatch is the level-wise MQTT 4.7 matcher (same definition as the C14 reference).
func refTopicMatch(filter, topic string) bool {
	f, t := splitLevels(filter), splitLevels(topic)
	for len(f) > 0 {
		if f[0] == "#" {
			return true
		}
		if len(t) == 0 {
			return false
		}
		if f[0] != "+" && f[0] != t[0] {
			return false
		}
		f, t = f[1:], t[1:]
	}
	return len(t) == 0
}

func splitLevels(s string) []string {
	var out []string
	start := 0
	for i := 0; i < len(s); i++ {
		if s[i] == '/' {
			out = append(out, s[start:i])
			start = i + 1
		}
	}
	return append(out, s[start:])
}
