#!/bin/sh
# usage: tools/verify_seed.sh <dir with patch.diff and demo_test.go>
# Confirms a seeded change on a scratch worktree of /repo HEAD: patch applies, suite passes with it,
# demo fails with it and passes without it. Prints one line: OK / reason.
D=$1
export GOFLAGS=-mod=mod GOPROXY=off GOSUMDB=off GOTOOLCHAIN=local
WT=/tmp/vs.$$
git -C /repo worktree add --detach $WT HEAD >/dev/null 2>&1 || { echo "worktree failed"; exit 3; }
cleanup() { git -C /repo worktree remove --force $WT >/dev/null 2>&1; }
cd $WT
if ! git apply "$D/patch.diff" 2>/dev/null; then
  if ! git apply -3 "$D/patch.diff" >/dev/null 2>&1; then echo "PATCH-DOES-NOT-APPLY"; cleanup; exit 1; fi
fi
if ! go build ./... 2>/dev/null; then echo "DOES-NOT-COMPILE"; cleanup; exit 1; fi
if ! go test -vet=off -count=1 ./... >/tmp/vs.suite 2>&1; then echo "SUITE-FAILS-WITH-PATCH"; cleanup; exit 1; fi
cp "$D/demo_test.go" zz_seed_demo_test.go
TESTS=$(grep -oE '^func (Test[A-Za-z0-9_]+)' zz_seed_demo_test.go | awk '{print $2}' | paste -sd'|')
try() { # $1 = race flag
  RACE=$1
  git apply "$D/patch.diff" 2>/dev/null || git apply -3 "$D/patch.diff" >/dev/null 2>&1
  if go test $RACE -vet=off -count=1 -run "^($TESTS)\$" . >/tmp/vs.with 2>&1; then git checkout -- . ; return 1; fi
  git checkout -- . >/dev/null 2>&1
  for i in 1 2; do
    if ! go test $RACE -vet=off -count=1 -run "^($TESTS)\$" . >/tmp/vs.without 2>&1; then return 2; fi
  done
  return 0
}
git checkout -- . >/dev/null 2>&1
try ""; r=$?
if [ $r -ne 0 ]; then try "-race"; r2=$?; else r2=0; RACE=""; fi
if [ $r -eq 0 ]; then echo "OK tests=$TESTS"; elif [ $r2 -eq 0 ]; then echo "OK tests=$TESTS -race"; elif [ $r2 -eq 1 ]; then echo "DEMO-PASSES-WITH-PATCH"; else echo "DEMO-FAILS-WITHOUT-PATCH"; fi
cleanup
