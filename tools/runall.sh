#!/bin/sh
# usage: tools/runall.sh [quick|thorough] — run every registered check on /repo as it is; summary at the end.
TIER=${1:-quick}
cd /verif || exit 3
rc=0
for id in $(python3 -c "import json; print(' '.join(c['property_id'] for c in json.load(open('MANIFEST.json'))['checks']))"); do
  ./check $id $TIER > /tmp/runall.$id.out 2>&1; r=$?
  tail -1 /tmp/runall.$id.out
  grep -E "^VIOLATION|^KNOWN-FINDING|^INCONCLUSIVE" /tmp/runall.$id.out | cut -c1-200
  [ $r -ne 0 ] && rc=1
done
exit $rc
