#!/bin/sh
# usage: tools/reseed.sh <repo dir> [ID ...]  — for every kept seed (of the given properties), apply it to <repo dir>, run its own
# property's quick check with evidence redirected, undo it, and print one line per seed. Meant for `vp run --with-repo`
# (repo dir = $VP_RUN_REPO, with harness/go.mod and ./check already pointed at it), never for /repo while other work runs.
R=$1; shift
cd "$(dirname "$0")/.." || exit 3
for d in seeded/*/; do
  s=$(basename $d); id=${s%%-*}
  if [ $# -gt 0 ]; then case " $* " in *" $id "*) ;; *) continue;; esac; fi
  git -C $R apply $PWD/$d/patch.diff 2>/dev/null || git -C $R apply -3 $PWD/$d/patch.diff >/dev/null 2>&1 || { echo "$s APPLY-FAILED"; git -C $R reset -q --hard HEAD; continue; }
  VERIF_EVIDENCE_DIR=/tmp/reseed-evidence ./check $id quick > /tmp/reseed.out 2>&1; rc=$?
  git -C $R reset -q --hard HEAD   # (a three-way apply stages its result: checkout alone would keep it)
  echo "$s exit=$rc $(grep -o 'violation \[[^]]*\]' /tmp/reseed.out | sort -u | head -3 | tr '\n' ' ')"
done
