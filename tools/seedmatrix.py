#!/usr/bin/env python3
"""For every seeded change under /tmp/seedout (or /verif/seeded), confirm it on a scratch worktree,
run the checks of its property (and listed extras) with the change applied to /repo, undo it, and
store patch + demo + meta.json under /verif/seeded/<ID>-<v>/.

usage: seedmatrix.py <srcdir> <ID> [<ID> ...]      (srcdir holds <ID>/{a,b}/patch.diff ...)
"""
import json, os, re, shutil, subprocess, sys

EXTRA = {"C11": ["C07"], "C15": ["C12"], "C19": ["C12", "C11"], "C12": ["C02"], "C04": ["C06"], "C07": ["C11"], "C17": [], "C13": ["C16"],
         "C01": ["C03", "C18"], "C02": ["C12", "C01"], "C03": ["C01", "C12"], "C08": ["C01"], "C09": ["C01", "C16"], "C10": ["C07"], "C16": ["C09"], "C18": ["C01"], "C06": ["C04"]}

def sh(cmd, **kw):
    return subprocess.run(cmd, shell=True, capture_output=True, text=True, **kw)

def run_check(cid, tier):
    r = sh(f"cd /verif && VERIF_EVIDENCE_DIR=/tmp/mut-evidence ./check {cid} {tier}")
    out = r.stdout + r.stderr
    sigs = sorted(set(re.findall(r"violation \[([^\]]+)\]", out)))
    return r.returncode, sigs, out.strip().splitlines()[-1] if out.strip() else ""

def main():
    src = sys.argv[1]
    for sid in sys.argv[2:]:
        for v in sorted(os.listdir(os.path.join(src, sid))):
            d = os.path.join(src, sid, v)
            if not os.path.isfile(os.path.join(d, "patch.diff")):
                continue
            name = f"{sid}-{v}"
            ver = sh(f"/verif/tools/verify_seed.sh {d}").stdout.strip().splitlines()
            verdict = ver[-1] if ver else "?"
            print(name, "verify:", verdict, flush=True)
            if not verdict.startswith("OK"):
                continue
            if sh("git -C /repo diff --quiet").returncode != 0:
                print("/repo dirty, abort"); sys.exit(3)
            if sh(f"git -C /repo apply {d}/patch.diff").returncode != 0 and sh(f"git -C /repo apply -3 {d}/patch.diff").returncode != 0:
                print("  cannot apply to /repo"); sh("git -C /repo reset -q --hard HEAD"); continue
            results = {}
            try:
                extras = [] if os.environ.get("SEEDMATRIX_NO_EXTRA") else EXTRA.get(sid, [])
                for cid in [sid] + extras:
                    rc, sigs, last = run_check(cid, "quick")
                    tier = "quick"
                    if rc == 0 and cid == sid and not os.environ.get("SEEDMATRIX_NO_THOROUGH"):
                        rc, sigs, last = run_check(cid, "thorough")
                        tier = "thorough"
                    results[cid] = {"tier": tier, "exit": rc, "signatures": sigs[:6], "summary": last}
                    print("  ", cid, tier, "exit", rc, sigs[:3], flush=True)
            finally:
                sh("git -C /repo checkout -- . && git -C /repo reset -q --hard HEAD")
            out = os.path.join("/verif/seeded", name)
            os.makedirs(out, exist_ok=True)
            for f in ("patch.diff", "demo_test.go", "notes.md"):
                if os.path.exists(os.path.join(d, f)):
                    shutil.copy(os.path.join(d, f), os.path.join(out, f))
            notes = open(os.path.join(d, "notes.md")).read() if os.path.exists(os.path.join(d, "notes.md")) else ""
            head = sh("git -C /repo log --format=%h -1").stdout.strip()
            meta = {
                "property": sid,
                "variant": v,
                "source": "written by an independent sub-agent that saw only the property text and a scratch worktree of /repo (nothing from /verif)",
                "needs_to_manifest": first_para(notes),
                "confirmed_on_repo_commit": head,
                "confirmation": {"command": "tools/verify_seed.sh (scratch worktree of /repo HEAD: patch applies, `go test -vet=off -count=1 ./...` passes with it, demo test fails with it and passes twice without it)", "result": verdict},
                "checks_run_with_change_applied_to_repo": results,
                "caught_by": sorted(c for c, r in results.items() if r["exit"] == 1),
            }
            json.dump(meta, open(os.path.join(out, "meta.json"), "w"), indent=1)

def first_para(notes):
    # the agent's own description of what the change needs in order to manifest
    m = re.search(r"(?is)(needs?[^\n]*manifest[^\n]*\n(?:.*?\n){0,8})", notes)
    txt = m.group(1) if m else notes[:600]
    return " ".join(txt.split())[:700]

main()
