#!/usr/bin/env python3
"""Regenerates the seed detection matrix in DESIGN.md (between the SEED-MATRIX markers) from seeded/*/meta.json."""
import json, os, glob, re
root = os.path.dirname(os.path.dirname(os.path.abspath(__file__)))
rows = []
for m in sorted(glob.glob(os.path.join(root, 'seeded/*/meta.json'))):
    j = json.load(open(m))
    name = os.path.basename(os.path.dirname(m))
    own = j['checks_run_with_change_applied_to_repo'].get(j['property'], {})
    sigs = ", ".join(own.get('signatures', [])[:2])
    others = [c for c in j['caught_by'] if c != j['property']]
    patch = open(os.path.join(os.path.dirname(m), 'patch.diff')).read()
    files = sorted(set(l[6:].strip() for l in patch.splitlines() if l.startswith('+++ b/')))
    rows.append(f"| {name} | {', '.join(files)} | {j['property']} {own.get('tier','?')}: `{sigs[:90]}` | {', '.join(others) or '-'} |")
table = "| seed | files touched | caught by own check (tier: signatures) | also caught by |\n|------|---------------|----------------------------------------|----------------|\n" + "\n".join(rows)
p = os.path.join(root, 'DESIGN.md')
d = open(p).read()
if '<!-- SEED-MATRIX-BEGIN -->' not in d:
    # first time: wrap the existing table
    i = d.index('| seed | files touched |')
    j = d.index('\n\n', i)
    d = d[:i] + '<!-- SEED-MATRIX-BEGIN -->\n' + table + '\n<!-- SEED-MATRIX-END -->' + d[j:]
else:
    d = re.sub(r'<!-- SEED-MATRIX-BEGIN -->.*?<!-- SEED-MATRIX-END -->', lambda _: '<!-- SEED-MATRIX-BEGIN -->\n' + table + '\n<!-- SEED-MATRIX-END -->', d, flags=re.S)
open(p, 'w').write(d)
print(len(rows), "rows")
