#!/bin/sh
# usage: tools/sedmut.sh <file> <python-replace-old> <new> <ID> [tier] — ad-hoc mutant: textual replace in /repo/<file>, run check, revert.
F=$1; OLD=$2; NEW=$3; ID=$4; TIER=${5:-quick}
cd /repo || exit 3
if ! git diff --quiet; then echo "/repo dirty"; exit 3; fi
python3 - "$F" "$OLD" "$NEW" <<'PY' || { git checkout -- .; exit 3; }
import sys
f,old,new=sys.argv[1:4]
s=open(f).read()
if old not in s: print("pattern not found"); sys.exit(1)
open(f,'w').write(s.replace(old,new,1))
PY
GOFLAGS=-mod=mod GOPROXY=off GOSUMDB=off GOTOOLCHAIN=local go build ./... || { echo "does not compile"; git checkout -- .; exit 3; }
GOFLAGS=-mod=mod GOPROXY=off GOSUMDB=off GOTOOLCHAIN=local go test -vet=off -count=1 . 2>&1 | tail -1
( cd /verif && VERIF_EVIDENCE_DIR=/tmp/mut-evidence ./check "$ID" "$TIER" > /tmp/mut.out 2>&1 ); rc=$?
git -C /repo checkout -- .
grep -E "^VIOLATION|violation \[" /tmp/mut.out | head -3 | cut -c1-260
tail -1 /tmp/mut.out
echo "exit=$rc"
