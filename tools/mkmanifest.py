#!/usr/bin/env python3
"""Regenerates /verif/MANIFEST.json from the table below (single source of truth)."""
import json, subprocess, os

ROOT = os.path.dirname(os.path.dirname(os.path.abspath(__file__)))

# id -> (category, technique, text, note, design_ref)
CHECKS = {
 "C10": ("exploration", "Go race detector (-race build, reports parsed and de-duplicated by innermost library frame pair) over concurrent storms; transport-level overlapping-Write detector and broker-side framer",
         "BaseClient and ReconnectClient storms (8-32 / 6-17 goroutines of every call kind, inbound traffic acknowledged by the reader goroutine, concurrent Close, keep-alive, cuts every few packets) plus the C07/C15/C20 workloads, all under the race detector, plus retry-client scenarios (fuzz, storms, client switches) and payloads up to 70 KiB, repeated with different seeds; any report not listed in known_findings.json is a violation; the transport flags overlapping Write calls and unframeable streams.",
         "The race detector only sees code the workload reaches and reports on happens-before, not on the interleaving that happened; schedules are sampled. Evidence lists the pairs of call kinds observed overlapping.", "5/C10"),

 "C11": ("fault_enumeration", "full enumeration of (call kind, step, cause) with a stalling scripted peer; return/ctx-error/Done/goroutine-dump oracle with certified-stuck certificate",
         "Every blocking call kind at every step of its exchange (incl. both QoS 2 phases, the Retry handle of every interrupted request kind on a fresh client, and ReconnectClient.Connect while dialling / waiting CONNACK / backing off) crossed with every cause (pre-cancelled, cancel, deadline, local Close, peer close, malformed packet), alone and with three other calls blocked at once, and after a burst of unsolicited acknowledgements; calls of every kind cancelled while waiting and then answered late (every answer twice) before the connection-ending cause; a hand-driven RetryClient whose client is replaced make-before-break while a request completes on the replaced connection, then Connect/Publish/Ping/Disconnect under contexts; state callbacks that call Err()/Done(); a peer that is gone before CONNECT is written; Disconnect while the handler is busy / from inside the handler; the retrying client's queueing calls during a pending handshake.",
         "Trusted: goroutine dump filtered to library reader frames (baseline-subtracted); watchdog expiry becomes a verdict only with the quiescence certificate.", "5/C11"),
 "C18": ("fault_enumeration", "dropped-acknowledgement sweep (single and on the retransmission path) with OnError/close/redial/retransmission monitor and certified-stuck certificate",
         "The broker model silently drops the acknowledgement of every request packet (all ack kinds incl. PUBREC/PUBCOMP) on first transmissions and, in pairs, on the connection that retransmits; per fired drop: RequestTimeoutError through OnError, library Close, new connection, retransmission; ledger discharged; certified-stuck = waits forever. Plans alternate the error style the transport returns after the library's own Close (net.Pipe, TCP, in-memory) and a late-returning Close; requests swallowed by a stalled link; a dropped SUBACK of a re-subscription; OnError callbacks that publish through the client; the broker stops reading while an acknowledgement is awaited.",
         "Trusted: certified-stuck certificate; no bound on close time asserted.", "5/C18"),

 "C13": ("fault_enumeration", "scripted-Client classification table for KeepAlive; system monitor of PINGREQ times, dropped pings, library Close and redial on the real ReconnectClient",
         "Seeded scripts of ping outcomes (prompt, immediate failure, never answered, parent cancelled before/during a ping) against KeepAlive with logical classification (timeouts that cannot have expired), and system runs in which the broker model goes silent at a chosen point or never; only a silent peer may be declared dead, a silent peer must be detected with ErrPingTimeout and followed by a new connection; scripts with responses that take 80 % of the timeout check that every ping gets a deadline of at least half the configured timeout (read from the context it is given); surplus PINGRESPs before the silence (sequential-ping rule); a broker that answers late but in time while a short ResponseTimeout is configured; a connection up for four intervals must show a PINGREQ.",
         "Trusted: scripted Ping honours its context like the real one; lower bounds on time only.", "5/C13"),
 "C16": ("fault_enumeration", "per-connection automaton over the ConnState callback log plus sampled Err()/Done() while healthy, after the end and after graceful Disconnect",
         "Every ending (peer close, local Close, malformed packet, refused CONNACK, Disconnect) alone, in sequence and racing on a BaseClient; reconnecting client with keep-alive going through several connections, the re-established connection sampled 3 keep-alive intervals after CONNACK and again after a graceful Disconnect; transports whose Close returns late, so that a secondary read error can overtake the real cause; peer close right behind an inbound PUBLISH (the reader's own write fails); peer gone before CONNECT is written; reserved CONNACK return codes.",
         "Trusted: callback log recorded under the trace mutex; racing causes are only held to order-independent rules.", "5/C16"),

 "C09": ("fault_enumeration", "online/offline lifecycle monitor over Dialer and transport events: open-transport count at dial, CONNECT-first, back-off lower bounds, no dial after Disconnect; Disconnect/cancel steered into every loop phase",
         "Seeded sequences of connection-ending causes (peer close, malformed packet, refused CONNACK with and without the broker closing, absent CONNACK, cuts, dial-error runs incl. outages of 45-75 consecutive failures, keep-alive silence, a connection that goes deaf for PINGREQ only and must be given up and replaced) x 6 back-off settings on the real ReconnectClient; Disconnect and context cancellation steered into each phase of the loop (parked Dialer, waiting CONNACK with and without a connect timeout, back-off wait, connected).",
         "Trusted: monotonic clock for lower bounds (sound under load); absence of dials after Disconnect observed for 3x max back-off.", "5/C09"),

 "C01": ("fault_enumeration", "obligation ledger over the recorded trace of the real ReconnectClient against a fault-injecting broker model; sentinel quiescence / certified-stuck",
         "Every single cut (4 kinds) at every request-packet ordinal of 14 canonical workloads x configurations x client kinds (library ReconnectClient; RetryClient driven through the Retryer contract by a hand-written loop in both Resubscribe/Retry orders), exhaustive cut pairs on short workloads (thorough), sampled pairs/triples, seeded random plans up to 6 faults incl. refused/absent CONNACK and dial failures, silently dropped acknowledgements with a ResponseTimeout, and steered submissions while the reconnect goroutine is inside the Dialer / a ConnectOption and from inside the ConnState(Active) / OnError callbacks; make-before-break client switches by the hand-written loops with requests in flight; a fuzz mode drawing workload, configuration, client kind, transport behaviour and plan at random. Every accepted QoS>=1 publish, subscribe, unsubscribe must have an acknowledgement sent and consumed by quiescence; certified-stuck and live-lock (25 healthy connections without progress) are violations.",
         "Trusted: broker model as specification of the peer; fault model of DESIGN.md 2.4; quiescence argument (two sentinels, FIFO task goroutine). Eventually is restated as quiescence after faults stop / certified stuck.", "5/C01"),
 "C02": ("fault_enumeration", "broker delivery-log count per message tag (exactly-once) over exhaustive single and pair cut sweeps",
         "QoS 2 workloads with 1-3 messages against a session-keeping broker model with both receiver methods; all single cuts and all pairs of cuts of 4 kinds over every CONNECT/PUBLISH/PUBREL ordinal, random plans and the fuzz mode beyond, incl. messages accepted before the first connection exists; delivery count must be exactly 1 at quiescence (0 in a certified-stuck or live-locked run is a violation too) and nothing may be transmitted for a message after its PUBCOMP was consumed and the client moved on.",
         "Trusted: broker model implements the MQTT 3.1.1 QoS 2 receiver rules (methods A and B).", "5/C02"),
 "C03": ("fault_enumeration", "order monitors (per-connection PUBLISH order, global first-transmission order, broker first-delivery order) over cut sweeps",
         "Single-submitter workloads; all single cuts, exhaustive pairs on short workloads, sampled pairs/triples, random plans, fuzz mode; R1/R2/R3 of DESIGN.md checked on every connection of every run.",
         "Trusted: tags identify messages; default queued mode.", "5/C03"),
 "C08": ("fault_enumeration", "broker subscription table at quiescence vs fold of application calls; explained-SUBSCRIBE rule per connection",
         "Canonical and seeded random Subscribe/Unsubscribe histories with repeated filters, changed QoS, duplicates inside a call, absent filters, calls before Connect and during outages; session kept/lost x AlwaysResubscribe on/off x three client kinds; all single cuts, sampled pairs/triples, random plans, fuzz mode, requests swallowed by a stalled link (dropReq); requests made before the first connection; table judged in stuck/live-locked runs too.",
         "Trusted: broker model grants requested QoS; fold semantics = MQTT subscription replacement.", "5/C08"),
 "C12": ("fault_enumeration", "per-message attempt-history monitor (id/content stability, DUP 0 then 1, PUBREL rules) over all write attempts incl. locally failed ones",
         "All PUBLISH/PUBREL attempts of every message across all connections in single/pair/random cut sweeps, incl. caller-set ids and preset Dup/retain, make-before-break client switches and the fuzz mode; also the ErrorWithRetry handle replayed on a fresh client (C19 API cases).",
         "Trusted: DUP defined on attempts; failed local writes are recorded by the transport.", "5/C12"),
 "C17": ("fault_enumeration", "inbound hand-over monitor: consumed inbound PUBLISH vs handler invocations per connection, with handler replacement history",
         "Broker model pushes tagged messages right behind every CONNACK, mid-connection and before cuts while Handle is called before Connect, after Connect, replaced or set to nil, between an inbound QoS 2 PUBLISH and its withheld PUBREL, and continuously from a storm goroutine (stats lock kept read-held) across reconnects; single cuts, sampled pairs, random plans, fuzz mode, repetitions; slowed Active callback; one-shot handlers that install their successor from inside the callback; make-before-break client switches with a message arriving on the replaced connection. A Handle call that never returns in a certified-stuck run is a violation. The last packet consumed on a connection is judged too; the broker model can redeliver unacknowledged inbound messages (same id, DUP=1); Dialers whose clients already carry a handler.",
         "Trusted: consumed-offset bookkeeping of the transport; handler entries are recorded when entered and the analysis runs after tear-down.", "5/C17"),

 "C04": ("exploration", "reference receiver automaton over a single-timeline trace of a real BaseClient (exhaustive bounded + seeded inbound sequences)",
         "Every inbound sequence over a 9-symbol alphabet up to length 4 (quick) / 6 (thorough), plus seeded random sequences, is played to the real client on an in-memory transport; the monitor compares the timeline of handler enter/exit and PUBACK/PUBREC/PUBCOMP writes with a reference receiver automaton. Exhaustive within the bound, sampled beyond; the hand-over rule is also run through the reconnecting / retrying clients; the handler calls back into the client; multi-byte topics.",
         "Trusted: the reference automaton (written from the statement), mqttref encoder, the Ping barrier argument (serve is sequential).", "5/C04"),
 "C05": ("exploration", "independent strict decoder/encoder round trip on bytes written to the transport; exhaustive remaining-length codec comparison",
         "Every packet the client writes in the generated workloads is decoded by an independent strict MQTT 3.1.1 decoder and compared field by field with the request, also in faulty runs of the retrying clients (retransmissions, re-subscriptions, a broker granting less than requested); inbound QoS 2 with a packet in between and delivered messages re-read after later packets; the length codec is compared with an independent encoder for every n in 0..268435455 (thorough) or all boundaries +-300 and 2^20 samples (quick).",
         "Trusted: mqttref (written from the OASIS text). Domain: requests MQTT 3.1.1 can express.", "5/C05"),
 "C06": ("exploration", "hostile byte streams fed to a real BaseClient in journalled child processes; crash attribution, read-size monitor, close-before-next-read oracle",
         "Structural enumeration of malformed packets (types x flags x short bodies, over-long/endless length fields, truncations, PUBLISH specials) and seeded random/mutated streams, each between a well-formed prefix and a canary, and also in place of the CONNACK while Connect waits; hostile acknowledgements that match requests in flight (SUBACK code vectors of any length and value, trailing bytes, reserved flags); failure/reserved SUBACK codes followed by session-less reconnects of the retrying clients; listed malformed packets right behind an accepting CONNACK (error must be observable); half of the streams through a ServeMux, zero-length topics, surplus PINGRESPs; a reader that stops reading is a violation; random bodies handed to every parser; the oracle is logical (library Close before the reader parks on exhausted input; Done/Err/Closed consistent; allocation bound from Read sizes).",
         "Trusted: mqttref classification of which blobs are in the property's list; leniencies outside the list only need to be crash-free.", "5/C06"),
 "C07": ("exploration", "scripted manual-mode broker with foreign-ack injection and Ping barriers; call/return vs ack-send order on one timeline",
         "Seeded scripts with 1-24 concurrent callers; foreign/unsolicited/duplicated acknowledgements first (proved processed by a Ping barrier), then own acknowledgements in a seeded permutation; a call may return only after the send event of its own acknowledgement; SUBACK vectors and wrong-length vectors checked; calls cancelled while waiting whose acknowledgements arrive late among the later calls; calls still waiting when the application disconnects must not return success; QoS 2 calls cancelled after PUBREC; a QoS 2 publish resumed through its retry handle next to fresh calls.",
         "Trusted: timeline order under the transport mutex; the barrier argument.", "5/C07"),
 "C14": ("exploration", "black-box comparison with an independent MQTT 4.7 matcher/validator, exhaustive over a bounded alphabet plus random",
         "All filters over a 10-symbol level alphabet up to depth 4 (quick) / 5 (thorough) for validity, all valid filters x all topics over {\"\",a,b,c} up to depth 4/5 for matching, random UTF-8 beyond, and random interleaved Handle/Serve sequences for dispatch order with handlers that rewrite the topic they are given; '$' below the first level. Exhaustive within the bound.",
         "Trusted: the reference matcher (level-wise definition from section 4.7).", "5/C14"),
 "C15": ("exploration", "online id-uniqueness monitor at the scripted broker under the transport mutex; counter positioned at wrap-around; concurrent caller storms",
         "Concurrent callers with withheld acknowledgements, counter pre-positioned around 16-bit and 32-bit wrap-around, storms of 16-64 callers released at the wrap; ids must be non-zero and distinct from all unacknowledged requests; caller-set ids unchanged (also through RetryClient's queue, on the retransmission over a new client, and when the caller set DUP/retain as well); a retransmission from the previous connection must not meet a fresh request's identifier (3 of 4 trials); identifiers of requests re-issued through retry handles on the same and on the next connection. The full-cycle laggard history is a recorded known finding.",
         "Trusted: the monitor's outstanding-set bookkeeping. Sampled schedules.", "5/C15"),
 "C19": ("exploration", "independent error-chain walker vs errors.Is/As on generated chains; API-level cause and retry-handle replay on the wire",
         "Seeded random chains from all sentinels and wrappers (depth<=8) checked against an independent chain walker for every sentinel and node as target; interrupted requests on a real client must expose the injected cause and a retry handle that re-issues the same request on a fresh client (decoded on the wire); with RetryClient.ResponseTimeout and acknowledgements dropped on first transmissions and retransmissions, every OnError value stemming from an expired deadline must satisfy errors.As(*RequestTimeoutError); connection-ending causes stay inspectable when the transport's Close fails too.",
         "Trusted: the chain walker. Domain: no pointer-to-non-struct error values; transports whose Write returns bare io.EOF excluded.", "5/C19"),
 "C20": ("exploration", "snapshot-equality monitor over mutating handlers behind ServeMux/ServeAsync with parked asynchronous handlers",
         "Seeded rounds: every handler snapshots what it received and then mutates everything reachable; asynchronous handlers are parked until the dispatcher returned; snapshots must equal the caller's original, what a handler kept after its own changes must not be altered by siblings (zero-length payloads with spare capacity included) and the caller's message must be unchanged; fan-out of one pointer to ServeAsync handlers and in-place mutating siblings; messages kept by asynchronous handlers re-read after later dispatches.",
         "Trusted: snapshot comparison. Sampled schedules for the asynchronous part.", "5/C20"),
}

TODO_REASON = "check not yet implemented in this commit (work in progress; see DESIGN.md)"

def main():
    ids = [json.loads(l)["id"] for l in open(os.path.join(ROOT, "properties.jsonl"))]
    try:
        commits = subprocess.check_output(["git", "-C", "/repo", "log", "--format=%h %s"], text=True).splitlines()
    except Exception:
        commits = []
    hook_commits = [c.split()[0] for c in commits if c.split(" ", 1)[1].startswith("verif:")]
    checks = []
    for i in ids:
        if i not in CHECKS:
            continue
        cat, tech, text, note, ref = CHECKS[i]
        checks.append({
            "property_id": i,
            "quick_cmd": "./check %s quick" % i,
            "thorough_cmd": "./check %s thorough" % i,
            "evidence_file": "/verif/evidence/%s.json" % i,
            "replay_cmd_template": "./check replay {path}",
            "engine": "vcheck",
            "level_claimed": {"category": cat, "text": text, "design_ref": "DESIGN.md section " + ref},
            "level_note": note,
            "technique": "runtime monitoring: " + tech,
        })
    m = {
        "version": 1,
        "setup_cmd": "./setup.sh",
        "hooks": {
            "guard": "verif",
            "enable": "go build -tags verif in /verif/harness (module 'verif' with replace github.com/at-wat/mqtt-go => /repo); done by ./check on every invocation",
            "baseline_off_cmd": "cd /repo && GOFLAGS=-mod=mod GOPROXY=off GOSUMDB=off GOTOOLCHAIN=local go test -vet=off -count=1 ./...",
            "source_commits": hook_commits,
            "add_only": True,
        },
        "engines": [{"name": "vcheck", "path": "/verif/harness", "serves_properties": [c["property_id"] for c in checks],
                     "kind_free_text": "Go harness: in-memory transport + broker/scripted peers + trace monitors; sharded journalled worker processes; -race binary for C10"}],
        "checks": checks,
        "notes": "All checks rebuild the harness against /repo's working tree (go build -tags verif). VERIF_SEED selects the PRNG seed; case lists are pure functions of (tier, seed). Exit 0 = held, 1 = VIOLATION line(s), 2 = inconclusive (observed too little).",
        "not_applicable": [{"property_id": i, "reason": TODO_REASON} for i in ids if i not in CHECKS],
    }
    json.dump(m, open(os.path.join(ROOT, "MANIFEST.json"), "w"), indent=1)
    print("checks:", [c["property_id"] for c in checks])

main()
