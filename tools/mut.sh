#!/bin/sh
# usage: tools/mut.sh <patch.diff> <ID> [tier]   — apply a seeded change to /repo, run the check, undo it.
P=$1; ID=$2; TIER=${3:-quick}
cd /repo || exit 3
if ! git diff --quiet; then echo "/repo has uncommitted changes"; exit 3; fi
git apply "$P" 2>/dev/null || git apply -3 "$P" || { echo "patch does not apply"; git reset -q --hard HEAD; exit 3; }
( cd /verif && VERIF_EVIDENCE_DIR=/tmp/mut-evidence ./check "$ID" "$TIER" > /tmp/mut.out 2>&1 ); rc=$?
git -C /repo reset -q HEAD 2>/dev/null; git -C /repo checkout -- . ; git -C /repo status --short | grep -v '^??' 
grep -E "^VIOLATION|violation \[" /tmp/mut.out | head -4
tail -1 /tmp/mut.out
echo "exit=$rc"
