#!/bin/sh
# Build the harness from files on disk only (offline).
set -e
cd "$(dirname "$0")"
exec ./check build
